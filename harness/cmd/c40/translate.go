// C40 (a) translator: per-method lock/field summaries of the three lock-owning
// types, computed from the source tree given by --repo with go/parser and
// go/types (dependencies are imported from compiler export data located by
// `go list -export`).  Fails closed: a missing type, lock field or zero
// methods is an error.
package main

import (
	"bytes"
	"encoding/json"
	"fmt"
	"go/ast"
	"go/importer"
	"go/parser"
	"go/token"
	"go/types"
	"io"
	"os"
	"os/exec"
	"path/filepath"
	"sort"
	"strings"
)

const modPath = "github.com/elastos/Elastos.ELA"

type target struct {
	Pkg, Type, Lock string // Lock: field name of the sync.RWMutex ("RWMutex" when embedded)
}

var targets = []target{
	{modPath + "/dpos/state", "State", "mtx"},
	{modPath + "/cr/state", "Committee", "mtx"},
	{modPath + "/mempool", "TxPool", "RWMutex"},
}

// Mode of a part.
const (
	mNone = 0
	mR    = 1
	mW    = 2
)

var modeName = []string{"MNone", "MR", "MW"}

// Part is one summary part of one exported method.
type Part struct {
	ID     int
	Group  string // target type
	Method string
	Kind   string // "locked" | "unlocked" | "escape"
	Mode   int
	Reads  map[string]bool
	Writes map[string]bool
	Pos    string
	Note   string // e.g. what escapes, callers
}

func (p *Part) Name() string { return p.Group + "." + p.Method + "/" + p.Kind }

type accSet struct{ r, w map[string]bool }

func newAcc() *accSet { return &accSet{map[string]bool{}, map[string]bool{}} }
func (a *accSet) add(b *accSet) {
	for k := range b.r {
		a.r[k] = true
	}
	for k := range b.w {
		a.w[k] = true
	}
}

type pkgInfo struct {
	path  string
	fset  *token.FileSet
	files []*ast.File
	info  *types.Info
	pkg   *types.Package
	decls map[*types.Func]*ast.FuncDecl
	// memo
	trans     map[*types.Func]*accSet
	inProg    map[*types.Func]bool
	closures  *accSet // accesses of every function literal handed to (*utils.History).Append
	retLevel  map[*types.Func]int
	retInProg map[*types.Func]bool
	unknown   map[string]int // calls not followed, by kind
}

type listedPkg struct {
	ImportPath string
	Export     string
	Dir        string
	GoFiles    []string
}

func goList(repo string, pkgs []string) (map[string]*listedPkg, error) {
	args := append([]string{"list", "-export", "-deps", "-json=ImportPath,Export,Dir,GoFiles"}, pkgs...)
	cmd := exec.Command("go", args...)
	cmd.Dir = repo
	cmd.Env = append(os.Environ(), "GOFLAGS=-mod=mod", "GOPROXY=off", "GOSUMDB=off", "GOTOOLCHAIN=local", "CGO_ENABLED=0")
	var out, errb bytes.Buffer
	cmd.Stdout, cmd.Stderr = &out, &errb
	if err := cmd.Run(); err != nil {
		return nil, fmt.Errorf("go list: %v: %s", err, errb.String())
	}
	res := map[string]*listedPkg{}
	dec := json.NewDecoder(&out)
	for {
		var p listedPkg
		if err := dec.Decode(&p); err == io.EOF {
			break
		} else if err != nil {
			return nil, err
		}
		q := p
		res[p.ImportPath] = &q
	}
	return res, nil
}

func loadPkg(listed map[string]*listedPkg, path string) (*pkgInfo, error) {
	lp := listed[path]
	if lp == nil {
		return nil, fmt.Errorf("package %s not listed", path)
	}
	fset := token.NewFileSet()
	var files []*ast.File
	for _, f := range lp.GoFiles {
		af, err := parser.ParseFile(fset, filepath.Join(lp.Dir, f), nil, parser.ParseComments)
		if err != nil {
			return nil, err
		}
		files = append(files, af)
	}
	lookup := func(p string) (io.ReadCloser, error) {
		e := listed[p]
		if e == nil || e.Export == "" {
			return nil, fmt.Errorf("no export data for %s", p)
		}
		return os.Open(e.Export)
	}
	info := &types.Info{Types: map[ast.Expr]types.TypeAndValue{}, Defs: map[*ast.Ident]types.Object{}, Uses: map[*ast.Ident]types.Object{},
		Selections: map[*ast.SelectorExpr]*types.Selection{}}
	conf := types.Config{Importer: importer.ForCompiler(fset, "gc", lookup), Error: func(error) {}}
	pkg, err := conf.Check(path, fset, files, info)
	if err != nil && pkg == nil {
		return nil, err
	}
	pi := &pkgInfo{path: path, fset: fset, files: files, info: info, pkg: pkg, decls: map[*types.Func]*ast.FuncDecl{},
		trans: map[*types.Func]*accSet{}, inProg: map[*types.Func]bool{}, retLevel: map[*types.Func]int{}, retInProg: map[*types.Func]bool{}, unknown: map[string]int{}}
	for _, f := range files {
		for _, d := range f.Decls {
			if fd, ok := d.(*ast.FuncDecl); ok && fd.Body != nil {
				if fn, ok := info.Defs[fd.Name].(*types.Func); ok {
					pi.decls[fn] = fd
				}
			}
		}
	}
	return pi, nil
}

// ---------------------------------------------------------------- locations

func namedStruct(t types.Type) (*types.Named, *types.Struct) {
	for {
		if p, ok := t.(*types.Pointer); ok {
			t = p.Elem()
			continue
		}
		break
	}
	n, ok := t.(*types.Named)
	if !ok {
		return nil, nil
	}
	s, ok := n.Underlying().(*types.Struct)
	if !ok {
		return nil, nil
	}
	return n, s
}

func typeLabel(n *types.Named) string {
	o := n.Obj()
	if o.Pkg() == nil {
		return o.Name()
	}
	p := o.Pkg().Path()
	p = strings.TrimPrefix(p, modPath+"/")
	return p + "." + o.Name()
}

func isByteSlice(t types.Type) bool {
	s, ok := t.Underlying().(*types.Slice)
	if !ok {
		return false
	}
	b, ok := s.Elem().Underlying().(*types.Basic)
	return ok && b.Kind() == types.Uint8
}

func isRefType(t types.Type) bool {
	switch u := t.Underlying().(type) {
	case *types.Pointer, *types.Map, *types.Chan, *types.Interface:
		return true
	case *types.Slice:
		_ = u
		return !isByteSlice(t)
	}
	return false
}

func hasRefsT(t types.Type, d int) bool {
	if d > 10 {
		return true
	}
	if isRefType(t) {
		return true
	}
	switch u := t.Underlying().(type) {
	case *types.Struct:
		for i := 0; i < u.NumFields(); i++ {
			if hasRefsT(u.Field(i).Type(), d+1) {
				return true
			}
		}
	case *types.Array:
		return hasRefsT(u.Elem(), d+1)
	}
	return false
}

// fieldLocs returns the locations touched by selecting sel on a value: one per
// field step of the (possibly promoted) path.
func (pi *pkgInfo) fieldLocs(se *ast.SelectorExpr) []string {
	sel := pi.info.Selections[se]
	if sel == nil || sel.Kind() != types.FieldVal {
		return nil
	}
	var locs []string
	t := sel.Recv()
	for _, idx := range sel.Index() {
		n, s := namedStruct(t)
		if s == nil {
			return locs
		}
		f := s.Field(idx)
		if n != nil {
			locs = append(locs, typeLabel(n)+"."+f.Name())
		}
		t = f.Type()
	}
	return locs
}

// ---------------------------------------------------------------- accesses

type funcCtx struct {
	pi    *pkgInfo
	acc   *accSet
	fresh map[types.Object]bool // local variables holding memory private to this call
}

// localValueRoot: is the access path rooted at a local struct *value* variable
// or at a variable only ever bound to fresh allocations?
func (c *funcCtx) privateRoot(e ast.Expr) bool {
	for {
		switch x := e.(type) {
		case *ast.ParenExpr:
			e = x.X
		case *ast.SelectorExpr:
			sel := c.pi.info.Selections[x]
			if sel == nil || sel.Kind() != types.FieldVal {
				return false
			}
			// crossing a pointer field leaves private memory
			if _, ok := c.pi.info.TypeOf(x.X).Underlying().(*types.Pointer); ok {
				if id, ok := x.X.(*ast.Ident); ok {
					return c.fresh[c.pi.info.ObjectOf(id)]
				}
				return false
			}
			e = x.X
		case *ast.Ident:
			obj := c.pi.info.ObjectOf(x)
			v, ok := obj.(*types.Var)
			if !ok || v.IsField() || v.Parent() == c.pi.pkg.Scope() {
				return false
			}
			if c.fresh[obj] {
				return true
			}
			if _, isPtr := v.Type().Underlying().(*types.Pointer); isPtr {
				return false
			}
			_, s := namedStruct(v.Type())
			return s != nil // a struct value held in a local variable
		default:
			return false
		}
	}
}

// privatePtr: a pointer variable only ever bound to fresh allocations.
func (c *funcCtx) privatePtr(e ast.Expr) bool {
	for {
		if p, ok := e.(*ast.ParenExpr); ok {
			e = p.X
			continue
		}
		break
	}
	if u, ok := e.(*ast.UnaryExpr); ok && u.Op == token.AND {
		return c.privateRoot(u.X)
	}
	id, ok := e.(*ast.Ident)
	return ok && c.fresh[c.pi.info.ObjectOf(id)]
}

// wholeStruct records an access to every field of n (nested struct values included).
func (c *funcCtx) wholeStruct(n *types.Named, write bool, depth int) {
	s, ok := n.Underlying().(*types.Struct)
	if !ok || depth > 6 {
		return
	}
	for i := 0; i < s.NumFields(); i++ {
		f := s.Field(i)
		if _, isFunc := f.Type().Underlying().(*types.Signature); isFunc {
			continue
		}
		l := typeLabel(n) + "." + f.Name()
		if write {
			c.acc.w[l] = true
		} else {
			c.acc.r[l] = true
		}
		if fn, ok := f.Type().(*types.Named); ok {
			if _, isStruct := fn.Underlying().(*types.Struct); isStruct {
				c.wholeStruct(fn, write, depth+1)
			}
		}
	}
}

func (c *funcCtx) read(e ast.Expr)  { c.touch(e, false) }
func (c *funcCtx) write(e ast.Expr) { c.touch(e, true) }

// touch records the access performed by using e as an rvalue (write=false) or
// as the target of a store (write=true: e itself or an element of it is stored to).
func (c *funcCtx) touch(e ast.Expr, write bool) {
	switch x := e.(type) {
	case *ast.ParenExpr:
		c.touch(x.X, write)
	case *ast.SelectorExpr:
		locs := c.pi.fieldLocs(x)
		if len(locs) > 0 && !c.privateRoot(x) {
			for i, l := range locs {
				if write && i == len(locs)-1 {
					c.acc.w[l] = true
				} else {
					c.acc.r[l] = true
				}
			}
		}
		c.touch(x.X, false)
	case *ast.IndexExpr:
		// storing to x[i] writes the container x denotes
		c.touch(x.X, write)
		c.expr(x.Index)
	case *ast.SliceExpr:
		c.touch(x.X, write)
		for _, s := range []ast.Expr{x.Low, x.High, x.Max} {
			if s != nil {
				c.expr(s)
			}
		}
	case *ast.StarExpr:
		// *p used as a value (struct copy) or stored to as a whole: every field of the pointed-to struct
		if tv, ok := c.pi.info.Types[x]; ok && tv.IsValue() && !c.privatePtr(x.X) {
			if n, _ := namedStruct(tv.Type); n != nil {
				if _, isPtr := tv.Type.Underlying().(*types.Pointer); !isPtr {
					c.wholeStruct(n, write, 0)
				}
			}
		}
		c.touch(x.X, false)
	default:
		c.expr(e)
	}
}

var histExec = map[string]bool{"Commit": true, "RollbackTo": true, "RollbackSeekTo": true, "SeekTo": true}

func (c *funcCtx) isHistoryMethod(se *ast.SelectorExpr, names map[string]bool) bool {
	sel := c.pi.info.Selections[se]
	if sel == nil || sel.Kind() != types.MethodVal {
		return false
	}
	fn, ok := sel.Obj().(*types.Func)
	if !ok || fn.Pkg() == nil || fn.Pkg().Path() != modPath+"/utils" {
		return false
	}
	n, _ := namedStruct(sel.Recv())
	return n != nil && n.Obj().Name() == "History" && names[fn.Name()]
}

// expr walks an rvalue expression.
func (c *funcCtx) expr(e ast.Expr) {
	switch x := e.(type) {
	case nil:
	case *ast.SelectorExpr, *ast.IndexExpr, *ast.SliceExpr, *ast.StarExpr, *ast.ParenExpr:
		if se, ok := x.(*ast.SelectorExpr); ok {
			if sel := c.pi.info.Selections[se]; sel == nil { // qualified identifier pkg.Name
				return
			}
		}
		c.touch(e, false)
	case *ast.UnaryExpr:
		if x.Op == token.AND {
			// the address escapes into a pointer through which it may be written
			if _, isLit := x.X.(*ast.CompositeLit); !isLit {
				c.touch(x.X, true)
				return
			}
		}
		c.expr(x.X)
	case *ast.BinaryExpr:
		c.expr(x.X)
		c.expr(x.Y)
	case *ast.CallExpr:
		c.call(x)
	case *ast.CompositeLit:
		for _, el := range x.Elts {
			if kv, ok := el.(*ast.KeyValueExpr); ok {
				if _, isField := c.pi.info.ObjectOf(identOf(kv.Key)).(*types.Var); !isField {
					c.expr(kv.Key)
				}
				c.expr(kv.Value)
			} else {
				c.expr(el)
			}
		}
	case *ast.FuncLit:
		c.block(x.Body)
	case *ast.TypeAssertExpr:
		c.expr(x.X)
	case *ast.KeyValueExpr:
		c.expr(x.Key)
		c.expr(x.Value)
	}
}

func identOf(e ast.Expr) *ast.Ident {
	if id, ok := e.(*ast.Ident); ok {
		return id
	}
	return &ast.Ident{Name: "_"}
}

func (c *funcCtx) call(call *ast.CallExpr) {
	// builtins that store through their first argument
	if id, ok := call.Fun.(*ast.Ident); ok {
		if _, isBuiltin := c.pi.info.ObjectOf(id).(*types.Builtin); isBuiltin {
			switch id.Name {
			case "delete", "copy", "clear":
				if len(call.Args) > 0 {
					c.touch(call.Args[0], true)
					for _, a := range call.Args[1:] {
						c.expr(a)
					}
					return
				}
			}
			for _, a := range call.Args {
				c.expr(a)
			}
			return
		}
	}
	// sort.X(slice, ...) reorders the slice in place
	if se, ok := call.Fun.(*ast.SelectorExpr); ok {
		if id, ok := se.X.(*ast.Ident); ok {
			if pn, ok := c.pi.info.ObjectOf(id).(*types.PkgName); ok && pn.Imported().Path() == "sort" && len(call.Args) > 0 {
				c.touch(call.Args[0], true)
				for _, a := range call.Args[1:] {
					c.expr(a)
				}
				return
			}
		}
	}
	var callee *types.Func
	switch f := call.Fun.(type) {
	case *ast.Ident:
		if fn, ok := c.pi.info.ObjectOf(f).(*types.Func); ok {
			callee = fn
		} else if _, isType := c.pi.info.ObjectOf(f).(*types.TypeName); !isType {
			c.pi.unknown["func-value"]++
		}
	case *ast.SelectorExpr:
		sel := c.pi.info.Selections[f]
		if sel == nil {
			// pkg.Func or pkg.Type conversion: other package, not followed
		} else if sel.Kind() == types.MethodVal {
			c.touch(f.X, false)
			fn := sel.Obj().(*types.Func)
			if _, isIface := sel.Recv().Underlying().(*types.Interface); isIface {
				c.pi.unknown["interface-method"]++
			} else {
				callee = fn
			}
			if c.isHistoryMethod(f, histExec) {
				c.acc.add(c.pi.historyClosures())
			}
		} else { // function-valued field
			c.touch(f, false)
			c.pi.unknown["func-field"]++
		}
	default:
		c.expr(call.Fun)
	}
	for _, a := range call.Args {
		c.expr(a)
	}
	if callee != nil && callee.Pkg() == c.pi.pkg {
		c.acc.add(c.pi.transitive(callee))
	}
}

func (c *funcCtx) block(b *ast.BlockStmt) {
	if b == nil {
		return
	}
	for _, s := range b.List {
		c.stmt(s)
	}
}

func (c *funcCtx) stmt(s ast.Stmt) {
	switch x := s.(type) {
	case nil:
	case *ast.ExprStmt:
		c.expr(x.X)
	case *ast.AssignStmt:
		for _, r := range x.Rhs {
			c.expr(r)
		}
		for _, l := range x.Lhs {
			if id, ok := l.(*ast.Ident); ok {
				_ = id // local or package variable: not a field location
				continue
			}
			c.touch(l, true)
			if x.Tok != token.ASSIGN && x.Tok != token.DEFINE {
				c.touch(l, false)
			}
		}
	case *ast.IncDecStmt:
		c.touch(x.X, true)
		c.touch(x.X, false)
	case *ast.DeclStmt:
		if gd, ok := x.Decl.(*ast.GenDecl); ok {
			for _, sp := range gd.Specs {
				if vs, ok := sp.(*ast.ValueSpec); ok {
					for _, v := range vs.Values {
						c.expr(v)
					}
				}
			}
		}
	case *ast.ReturnStmt:
		for _, r := range x.Results {
			c.expr(r)
		}
	case *ast.IfStmt:
		c.stmt(x.Init)
		c.expr(x.Cond)
		c.block(x.Body)
		c.stmt(x.Else)
	case *ast.ForStmt:
		c.stmt(x.Init)
		c.expr(x.Cond)
		c.stmt(x.Post)
		c.block(x.Body)
	case *ast.RangeStmt:
		c.expr(x.X)
		for _, l := range []ast.Expr{x.Key, x.Value} {
			if l != nil {
				if _, ok := l.(*ast.Ident); !ok {
					c.touch(l, true)
				}
			}
		}
		c.block(x.Body)
	case *ast.SwitchStmt:
		c.stmt(x.Init)
		c.expr(x.Tag)
		c.block(x.Body)
	case *ast.TypeSwitchStmt:
		c.stmt(x.Init)
		c.stmt(x.Assign)
		c.block(x.Body)
	case *ast.CaseClause:
		for _, e := range x.List {
			c.expr(e)
		}
		for _, st := range x.Body {
			c.stmt(st)
		}
	case *ast.SelectStmt:
		c.block(x.Body)
	case *ast.CommClause:
		c.stmt(x.Comm)
		for _, st := range x.Body {
			c.stmt(st)
		}
	case *ast.BlockStmt:
		c.block(x)
	case *ast.DeferStmt:
		c.call(x.Call)
	case *ast.GoStmt:
		c.call(x.Call)
	case *ast.SendStmt:
		c.expr(x.Chan)
		c.expr(x.Value)
	case *ast.LabeledStmt:
		c.stmt(x.Stmt)
	}
}

// freshVars: local variables all of whose bindings are fresh allocations.
func (pi *pkgInfo) freshVars(body *ast.BlockStmt) map[types.Object]bool {
	good := map[types.Object]bool{}
	bad := map[types.Object]bool{}
	isFresh := func(e ast.Expr) bool {
		switch x := e.(type) {
		case *ast.UnaryExpr:
			_, ok := x.X.(*ast.CompositeLit)
			return x.Op == token.AND && ok
		case *ast.CallExpr:
			if id, ok := x.Fun.(*ast.Ident); ok && (id.Name == "new") {
				return true
			}
		}
		return false
	}
	ast.Inspect(body, func(n ast.Node) bool {
		switch x := n.(type) {
		case *ast.AssignStmt:
			if len(x.Lhs) == len(x.Rhs) {
				for i, l := range x.Lhs {
					if id, ok := l.(*ast.Ident); ok {
						obj := pi.info.ObjectOf(id)
						if obj == nil {
							continue
						}
						if isFresh(x.Rhs[i]) {
							good[obj] = true
						} else {
							bad[obj] = true
						}
					}
				}
			} else {
				for _, l := range x.Lhs {
					if id, ok := l.(*ast.Ident); ok {
						if obj := pi.info.ObjectOf(id); obj != nil {
							bad[obj] = true
						}
					}
				}
			}
		case *ast.RangeStmt:
			for _, l := range []ast.Expr{x.Key, x.Value} {
				if id, ok := l.(*ast.Ident); ok {
					if obj := pi.info.ObjectOf(id); obj != nil {
						bad[obj] = true
					}
				}
			}
		}
		return true
	})
	for o := range bad {
		delete(good, o)
	}
	return good
}

func (pi *pkgInfo) direct(body *ast.BlockStmt) *accSet {
	c := &funcCtx{pi: pi, acc: newAcc(), fresh: pi.freshVars(body)}
	c.block(body)
	return c.acc
}

// transitive: accesses of fn's body and of every same-package function it
// (transitively) calls statically.
func (pi *pkgInfo) transitive(fn *types.Func) *accSet {
	if a, ok := pi.trans[fn]; ok {
		return a
	}
	if pi.inProg[fn] {
		return newAcc() // recursion: the fixpoint is reached by the outer call
	}
	fd := pi.decls[fn]
	if fd == nil {
		return newAcc()
	}
	pi.inProg[fn] = true
	a := pi.direct(fd.Body)
	delete(pi.inProg, fn)
	pi.trans[fn] = a
	return a
}

// historyClosures: accesses of the do/undo closures registered with
// (*utils.History).Append anywhere in the package; History.Commit /
// RollbackTo / SeekTo run them.
func (pi *pkgInfo) historyClosures() *accSet {
	if pi.closures != nil {
		return pi.closures
	}
	pi.closures = newAcc()
	all := newAcc()
	appendOnly := map[string]bool{"Append": true}
	for _, f := range pi.files {
		ast.Inspect(f, func(n ast.Node) bool {
			call, ok := n.(*ast.CallExpr)
			if !ok {
				return true
			}
			se, ok := call.Fun.(*ast.SelectorExpr)
			if !ok {
				return true
			}
			c := &funcCtx{pi: pi, acc: all, fresh: map[types.Object]bool{}}
			if c.isHistoryMethod(se, appendOnly) {
				for _, a := range call.Args {
					if fl, ok := a.(*ast.FuncLit); ok {
						c.fresh = pi.freshVars(fl.Body)
						c.block(fl.Body)
					}
				}
			}
			return true
		})
	}
	pi.closures = all
	return all
}

// ---------------------------------------------------------------- lock modes

type lockOps struct {
	pi      *pkgInfo
	lockVar *types.Var
	tgt     *types.Named
}

// lockOp classifies a call: "Lock","RLock","Unlock","RUnlock" on the target's own mutex, or "".
func (lo *lockOps) lockOp(call *ast.CallExpr) string {
	se, ok := call.Fun.(*ast.SelectorExpr)
	if !ok {
		return ""
	}
	sel := lo.pi.info.Selections[se]
	if sel == nil || sel.Kind() != types.MethodVal {
		return ""
	}
	fn := sel.Obj().(*types.Func)
	if fn.Pkg() == nil || fn.Pkg().Path() != "sync" {
		return ""
	}
	switch fn.Name() {
	case "Lock", "RLock", "Unlock", "RUnlock":
	default:
		return ""
	}
	// s.mtx.Lock(): receiver expression is a selection of the lock field
	if inner, ok := se.X.(*ast.SelectorExpr); ok {
		if isel := lo.pi.info.Selections[inner]; isel != nil && isel.Obj() == lo.lockVar {
			return fn.Name()
		}
	}
	// mp.Lock() through the embedded mutex
	if n, s := namedStruct(sel.Recv()); n != nil && n.Obj() == lo.tgt.Obj() && len(sel.Index()) >= 2 {
		if s.Field(sel.Index()[0]) == lo.lockVar {
			return fn.Name()
		}
	}
	return ""
}

// walkModes attributes every statement of body to the lock mode it runs under.
// Returns mode at the end and whether the list always leaves the function.
func (lo *lockOps) walkModes(list []ast.Stmt, mode int, emit func(s ast.Stmt, mode int)) (int, bool) {
	for _, s := range list {
		switch x := s.(type) {
		case *ast.ExprStmt:
			if call, ok := x.X.(*ast.CallExpr); ok {
				switch lo.lockOp(call) {
				case "Lock":
					mode = mW
					continue
				case "RLock":
					mode = mR
					continue
				case "Unlock", "RUnlock":
					mode = mNone
					continue
				}
			}
			emit(s, mode)
		case *ast.DeferStmt:
			if op := lo.lockOp(x.Call); op == "Unlock" || op == "RUnlock" {
				continue // held until return
			}
			emit(s, mode)
		case *ast.ReturnStmt:
			emit(s, mode)
			return mode, true
		case *ast.IfStmt:
			// condition and init run under the current mode
			emit(&ast.ExprStmt{X: x.Cond}, mode)
			if x.Init != nil {
				emit(x.Init, mode)
			}
			mt, tt := lo.walkModes(x.Body.List, mode, emit)
			me, te := mode, false
			if x.Else != nil {
				switch el := x.Else.(type) {
				case *ast.BlockStmt:
					me, te = lo.walkModes(el.List, mode, emit)
				default:
					me, te = lo.walkModes([]ast.Stmt{el}, mode, emit)
				}
			}
			switch {
			case tt && te:
				return mode, true
			case tt:
				mode = me
			case te:
				mode = mt
			default:
				if mt < me {
					mode = mt
				} else {
					mode = me
				}
			}
		case *ast.BlockStmt:
			var t bool
			mode, t = lo.walkModes(x.List, mode, emit)
			if t {
				return mode, true
			}
		case *ast.SwitchStmt, *ast.TypeSwitchStmt, *ast.SelectStmt:
			if !lo.containsLockOp(s) {
				emit(s, mode)
				continue
			}
			// lock operations inside the clauses: each clause is walked from the current mode
			var body *ast.BlockStmt
			switch sw := x.(type) {
			case *ast.SwitchStmt:
				body = sw.Body
				if sw.Init != nil {
					emit(sw.Init, mode)
				}
				if sw.Tag != nil {
					emit(&ast.ExprStmt{X: sw.Tag}, mode)
				}
			case *ast.TypeSwitchStmt:
				body = sw.Body
				emit(sw.Assign, mode)
			case *ast.SelectStmt:
				body = sw.Body
			}
			end, allTerm := mode, true
			for _, cl := range body.List {
				var list []ast.Stmt
				switch c := cl.(type) {
				case *ast.CaseClause:
					for _, e := range c.List {
						emit(&ast.ExprStmt{X: e}, mode)
					}
					list = c.Body
				case *ast.CommClause:
					if c.Comm != nil {
						emit(c.Comm, mode)
					}
					list = c.Body
				}
				m, term := lo.walkModes(list, mode, emit)
				if !term {
					allTerm = false
					if m < end {
						end = m
					}
				}
			}
			_ = allTerm
			mode = end
		case *ast.ForStmt, *ast.RangeStmt:
			if !lo.containsLockOp(s) {
				emit(s, mode)
				continue
			}
			var body *ast.BlockStmt
			if f, ok := x.(*ast.ForStmt); ok {
				body = f.Body
				if f.Init != nil {
					emit(f.Init, mode)
				}
				if f.Cond != nil {
					emit(&ast.ExprStmt{X: f.Cond}, mode)
				}
				if f.Post != nil {
					emit(f.Post, mode)
				}
			} else {
				r := x.(*ast.RangeStmt)
				body = r.Body
				emit(&ast.ExprStmt{X: r.X}, mode)
			}
			if m, _ := lo.walkModes(body.List, mode, func(ast.Stmt, int) {}); m == mode {
				lo.walkModes(body.List, mode, emit) // balanced inside the body
			} else {
				emit(body, mNone) // a lock taken or dropped across iterations: weakest mode
				mode = mNone
			}
		default:
			emit(s, mode)
		}
	}
	return mode, false
}

func (lo *lockOps) containsLockOp(n ast.Node) bool {
	found := false
	ast.Inspect(n, func(m ast.Node) bool {
		if call, ok := m.(*ast.CallExpr); ok && lo.lockOp(call) != "" {
			found = true
		}
		return !found
	})
	return found
}

// ---------------------------------------------------------------- escape analysis
//
// Level of a value = number of private layers between it and protected state:
//   0   the value (a pointer, map or slice) refers to protected memory itself;
//   k>0 it refers to (or, for a struct value, is) private memory in which every
//       stored reference has level >= k-1;
//   lvInf  nothing of the protected state is reachable through it.
// Flow-insensitive per function (levels of local variables only decrease).

const lvInf = 99

type taint struct {
	pi   *pkgInfo
	recv types.Object
	vars map[types.Object]int
	all  bool // treat every parameter as protected state (callee summaries)
	prm  map[types.Object]bool
}

func minI(a, b int) int {
	if a < b {
		return a
	}
	return b
}

func (t *taint) varLevel(obj types.Object) int {
	if obj == nil {
		return lvInf
	}
	if obj == t.recv || (t.all && t.prm[obj]) {
		return 0
	}
	if l, ok := t.vars[obj]; ok {
		return l
	}
	return lvInf
}

// inner: level of what is stored inside memory of level k, read at type rt.
func inner(k int, rt types.Type) int {
	if tup, ok := rt.(*types.Tuple); ok && tup.Len() > 0 {
		rt = tup.At(0).Type() // v, ok := m[k]
	}
	if k >= lvInf || rt == nil || !hasRefsT(rt, 0) {
		return lvInf
	}
	if k == 0 {
		return 0
	}
	if isRefType(rt) {
		return k - 1
	}
	return k
}

func (t *taint) level(e ast.Expr) int {
	switch x := e.(type) {
	case nil:
		return lvInf
	case *ast.ParenExpr:
		return t.level(x.X)
	case *ast.Ident:
		return t.varLevel(t.pi.info.ObjectOf(x))
	case *ast.SelectorExpr:
		sel := t.pi.info.Selections[x]
		if sel == nil || sel.Kind() != types.FieldVal {
			return lvInf
		}
		return inner(t.level(x.X), t.pi.info.TypeOf(x))
	case *ast.IndexExpr:
		return inner(t.level(x.X), t.pi.info.TypeOf(x))
	case *ast.SliceExpr:
		return t.level(x.X)
	case *ast.StarExpr:
		return t.level(x.X)
	case *ast.UnaryExpr:
		if x.Op == token.AND {
			return t.level(x.X)
		}
		return lvInf
	case *ast.TypeAssertExpr:
		return t.level(x.X)
	case *ast.CompositeLit:
		m := lvInf
		for _, el := range x.Elts {
			v := el
			if kv, ok := el.(*ast.KeyValueExpr); ok {
				v = kv.Value
			}
			if l := t.level(v); l < lvInf {
				m = minI(m, l+1)
			}
		}
		return m
	case *ast.CallExpr:
		if id, ok := x.Fun.(*ast.Ident); ok {
			obj := t.pi.info.ObjectOf(id)
			if _, isB := obj.(*types.Builtin); isB {
				if id.Name == "append" && len(x.Args) > 0 {
					m := t.level(x.Args[0])
					for _, a := range x.Args[1:] {
						if l := t.level(a); l < lvInf {
							if x.Ellipsis.IsValid() {
								m = minI(m, l) // append(a, b...) copies b's elements
							} else {
								m = minI(m, l+1)
							}
						}
					}
					return m
				}
				return lvInf
			}
			if _, isType := obj.(*types.TypeName); isType && len(x.Args) == 1 {
				return t.level(x.Args[0])
			}
			if fn, ok := obj.(*types.Func); ok && fn.Pkg() == t.pi.pkg {
				any := false
				for _, a := range x.Args {
					if t.level(a) < lvInf {
						any = true
					}
				}
				if !any {
					return lvInf
				}
				return t.pi.returnLevel(fn)
			}
			return lvInf
		}
		if se, ok := x.Fun.(*ast.SelectorExpr); ok {
			sel := t.pi.info.Selections[se]
			if sel != nil && sel.Kind() == types.MethodVal {
				fn := sel.Obj().(*types.Func)
				if fn.Pkg() == t.pi.pkg {
					if _, isIface := sel.Recv().Underlying().(*types.Interface); isIface {
						return lvInf
					}
					any := t.level(se.X) < lvInf
					for _, a := range x.Args {
						if t.level(a) < lvInf {
							any = true
						}
					}
					if !any {
						return lvInf
					}
					return t.pi.returnLevel(fn)
				}
			}
			// a type conversion pkg.T(x)
			if sel == nil && len(x.Args) == 1 {
				if tv, ok := t.pi.info.Types[x.Fun]; ok && tv.IsType() {
					return t.level(x.Args[0])
				}
			}
		}
		return lvInf
	}
	return lvInf
}

// assign binds a value of level lv (of static type vt) to lhs.
func (t *taint) assign(lhs ast.Expr, lv int, vt types.Type) bool {
	if lv >= lvInf {
		return false
	}
	if id, ok := lhs.(*ast.Ident); ok {
		obj := t.pi.info.ObjectOf(id)
		v, isVar := obj.(*types.Var)
		if !isVar || v.IsField() || obj == t.recv {
			return false
		}
		if !hasRefsT(v.Type(), 0) {
			return false
		}
		if lv == 0 && !isRefType(v.Type()) {
			lv = 1 // a struct/array value copied out of the state: private memory, shared references
		}
		if lv < t.varLevel(obj) {
			t.vars[obj] = lv
			return true
		}
		return false
	}
	// store into memory reached from a local variable: that memory now holds a level-lv reference
	root := lhs
	for {
		switch r := root.(type) {
		case *ast.IndexExpr:
			root = r.X
			continue
		case *ast.SelectorExpr:
			root = r.X
			continue
		case *ast.ParenExpr:
			root = r.X
			continue
		case *ast.StarExpr:
			root = r.X
			continue
		}
		break
	}
	id, ok := root.(*ast.Ident)
	if !ok {
		return false
	}
	obj := t.pi.info.ObjectOf(id)
	v, isVar := obj.(*types.Var)
	if !isVar || v.IsField() || obj == t.recv {
		return false
	}
	if vt != nil && !hasRefsT(vt, 0) {
		return false
	}
	if lv+1 < t.varLevel(obj) {
		t.vars[obj] = lv + 1
		return true
	}
	return false
}

func (t *taint) run(body *ast.BlockStmt) {
	for iter := 0; iter < 12; iter++ {
		changed := false
		ast.Inspect(body, func(n ast.Node) bool {
			switch x := n.(type) {
			case *ast.AssignStmt:
				if len(x.Lhs) == len(x.Rhs) {
					for i := range x.Lhs {
						if t.assign(x.Lhs[i], t.level(x.Rhs[i]), t.pi.info.TypeOf(x.Rhs[i])) {
							changed = true
						}
					}
				} else if len(x.Rhs) == 1 {
					lv := t.level(x.Rhs[0])
					_, isCall := x.Rhs[0].(*ast.CallExpr)
					for i, l := range x.Lhs {
						if i == 0 || isCall {
							if t.assign(l, lv, t.pi.info.TypeOf(l)) {
								changed = true
							}
						}
					}
				}
			case *ast.ValueSpec:
				for i, nm := range x.Names {
					if i < len(x.Values) {
						if t.assign(nm, t.level(x.Values[i]), t.pi.info.TypeOf(x.Values[i])) {
							changed = true
						}
					}
				}
			case *ast.RangeStmt:
				if x.Value != nil {
					vt := t.pi.info.TypeOf(x.Value)
					if t.assign(x.Value, inner(t.level(x.X), vt), vt) {
						changed = true
					}
				}
			}
			return true
		})
		if !changed {
			break
		}
	}
}

// returnLevel: the lowest level of any returned expression of fn, assuming
// its receiver and parameters are protected state.
func (pi *pkgInfo) returnLevel(fn *types.Func) int {
	if l, ok := pi.retLevel[fn]; ok {
		return l
	}
	if pi.retInProg[fn] {
		return lvInf
	}
	fd := pi.decls[fn]
	if fd == nil {
		return lvInf
	}
	pi.retInProg[fn] = true
	_, lv := pi.returns(fd, true)
	delete(pi.retInProg, fn)
	pi.retLevel[fn] = lv
	return lv
}

type retInfo struct {
	idx   int
	level int
	expr  ast.Expr
}

func retAdjust(t types.Type, lv int) int {
	if t == nil || !hasRefsT(t, 0) {
		return lvInf
	}
	if lv == 0 && !isRefType(t) {
		return 1
	}
	return lv
}

// returns analyses fd's return statements. allParams: treat parameters as state.
func (pi *pkgInfo) returns(fd *ast.FuncDecl, allParams bool) ([]retInfo, int) {
	t := &taint{pi: pi, vars: map[types.Object]int{}, all: allParams, prm: map[types.Object]bool{}}
	if fd.Recv != nil && len(fd.Recv.List) > 0 && len(fd.Recv.List[0].Names) > 0 {
		t.recv = pi.info.ObjectOf(fd.Recv.List[0].Names[0])
	}
	if fd.Type.Params != nil {
		for _, f := range fd.Type.Params.List {
			for _, n := range f.Names {
				t.prm[pi.info.ObjectOf(n)] = true
			}
		}
	}
	t.run(fd.Body)
	var named []types.Object
	if fd.Type.Results != nil {
		for _, f := range fd.Type.Results.List {
			for _, n := range f.Names {
				named = append(named, pi.info.ObjectOf(n))
			}
		}
	}
	var out []retInfo
	min := lvInf
	ast.Inspect(fd.Body, func(n ast.Node) bool {
		if _, isLit := n.(*ast.FuncLit); isLit {
			return false
		}
		rs, ok := n.(*ast.ReturnStmt)
		if !ok {
			return true
		}
		if len(rs.Results) == 0 {
			for i, o := range named {
				lv := retAdjust(o.Type(), t.varLevel(o))
				out = append(out, retInfo{i, lv, nil})
				min = minI(min, lv)
			}
			return true
		}
		for i, r := range rs.Results {
			lv := retAdjust(pi.info.TypeOf(r), t.level(r))
			out = append(out, retInfo{i, lv, r})
			min = minI(min, lv)
		}
		return true
	})
	return out, min
}

// aliasAll: every location reachable from a value of type t that refers to
// protected memory.
func (pi *pkgInfo) aliasAll(t types.Type, out map[string]bool, seen map[types.Type]bool, depth int) {
	if t == nil || depth > 14 {
		return
	}
	switch u := t.(type) {
	case *types.Pointer:
		pi.aliasAll(u.Elem(), out, seen, depth+1)
	case *types.Named:
		if seen[t] {
			return
		}
		seen[t] = true
		if s, ok := u.Underlying().(*types.Struct); ok {
			for i := 0; i < s.NumFields(); i++ {
				f := s.Field(i)
				if _, isFunc := f.Type().Underlying().(*types.Signature); isFunc {
					continue
				}
				out[typeLabel(u)+"."+f.Name()] = true
				pi.aliasAll(f.Type(), out, seen, depth+1)
			}
			return
		}
		pi.aliasAll(u.Underlying(), out, seen, depth+1)
	case *types.Map:
		pi.aliasAll(u.Elem(), out, seen, depth+1)
	case *types.Slice:
		pi.aliasAll(u.Elem(), out, seen, depth+1)
	case *types.Array:
		pi.aliasAll(u.Elem(), out, seen, depth+1)
	case *types.Struct:
		for i := 0; i < u.NumFields(); i++ {
			pi.aliasAll(u.Field(i).Type(), out, seen, depth+1)
		}
	}
}

// regions: the protected locations a holder of a value of type t at level lv
// (0 or 1) can read.  Level 1: t is private; the references stored directly
// in it refer to protected memory.
func (pi *pkgInfo) regions(t types.Type, lv int, out map[string]bool) {
	if lv == 0 {
		pi.aliasAll(t, out, map[types.Type]bool{}, 0)
		return
	}
	// lv == 1
	switch u := t.Underlying().(type) {
	case *types.Pointer:
		pi.regions1Struct(u.Elem(), out)
	case *types.Map:
		pi.elem1(u.Elem(), out)
	case *types.Slice:
		pi.elem1(u.Elem(), out)
	case *types.Array:
		pi.elem1(u.Elem(), out)
	case *types.Struct:
		pi.regions1Struct(t, out)
	}
}

// elem1: an element stored in a private container whose level is 1.
func (pi *pkgInfo) elem1(et types.Type, out map[string]bool) {
	if isRefType(et) {
		pi.aliasAll(et, out, map[types.Type]bool{}, 0)
	} else {
		pi.regions1Struct(et, out)
	}
}

// regions1Struct: a private struct value whose reference-typed fields refer
// to protected memory: the field names the shared container.
func (pi *pkgInfo) regions1Struct(t types.Type, out map[string]bool) {
	n, s := namedStruct(t)
	if s == nil {
		return
	}
	for i := 0; i < s.NumFields(); i++ {
		f := s.Field(i)
		if _, isFunc := f.Type().Underlying().(*types.Signature); isFunc {
			continue
		}
		if isRefType(f.Type()) {
			if n != nil {
				out[typeLabel(n)+"."+f.Name()] = true
			}
			pi.aliasAll(f.Type(), out, map[types.Type]bool{}, 0)
		} else if hasRefsT(f.Type(), 0) {
			pi.regions1Struct(f.Type(), out)
		}
	}
}

// ---------------------------------------------------------------- driver

// DeepReturn: an exported method returning a copy whose sharing with the
// state, if any, lies two or more private layers down.
type DeepReturn struct {
	Group, Method string
	Level, Params int
	Pos           string
}

// entryName: method name, qualified by the receiver type when it is not the target.
func entryName(fn *types.Func, target *types.TypeName) string {
	if recv := fn.Type().(*types.Signature).Recv(); recv != nil {
		if n, _ := namedStruct(recv.Type()); n != nil && n.Obj() != target {
			return n.Obj().Name() + "." + fn.Name()
		}
		return fn.Name()
	}
	return "func." + fn.Name()
}

type Translation struct {
	Ckpt         []*CkptChan
	ExtraEntries []string
	Deep         []DeepReturn
	Parts        []*Part
	Locs         []string       // index = location id
	LocID        map[string]int `json:"-"`
	Groups       []string
	Unknown      map[string]map[string]int
	Methods      map[string]int // exported methods per group
}

func translate(repo string) (*Translation, error) {
	var paths []string
	for _, t := range targets {
		paths = append(paths, t.Pkg)
	}
	listed, err := goList(repo, append(paths, ckptPkg))
	if err != nil {
		return nil, err
	}
	ck, err := translateCkpt(repo, listed)
	if err != nil {
		return nil, err
	}
	tr := &Translation{Ckpt: ck, LocID: map[string]int{}, Unknown: map[string]map[string]int{}, Methods: map[string]int{}}
	locID := func(l string) int {
		if id, ok := tr.LocID[l]; ok {
			return id
		}
		id := len(tr.Locs)
		tr.Locs = append(tr.Locs, l)
		tr.LocID[l] = id
		return id
	}
	_ = locID
	for _, tg := range targets {
		pi, err := loadPkg(listed, tg.Pkg)
		if err != nil {
			return nil, fmt.Errorf("load %s: %v", tg.Pkg, err)
		}
		obj := pi.pkg.Scope().Lookup(tg.Type)
		tn, ok := obj.(*types.TypeName)
		if !ok {
			return nil, fmt.Errorf("type %s.%s not found", tg.Pkg, tg.Type)
		}
		named := tn.Type().(*types.Named)
		st, ok := named.Underlying().(*types.Struct)
		if !ok {
			return nil, fmt.Errorf("%s.%s is not a struct", tg.Pkg, tg.Type)
		}
		var lockVar *types.Var
		for i := 0; i < st.NumFields(); i++ {
			if st.Field(i).Name() == tg.Lock {
				lockVar = st.Field(i)
			}
		}
		if lockVar == nil {
			return nil, fmt.Errorf("%s.%s has no lock field %s", tg.Pkg, tg.Type, tg.Lock)
		}
		if ln, ok := lockVar.Type().(*types.Named); !ok || ln.Obj().Pkg() == nil || ln.Obj().Pkg().Path() != "sync" || ln.Obj().Name() != "RWMutex" {
			return nil, fmt.Errorf("%s.%s.%s is not a sync.RWMutex", tg.Pkg, tg.Type, tg.Lock)
		}
		lo := &lockOps{pi: pi, lockVar: lockVar, tgt: named}
		tr.Groups = append(tr.Groups, tg.Type)

		// exported methods declared on the target, in source order
		var fns []*types.Func
		for fn, fd := range pi.decls {
			if fd.Recv == nil || !fn.Exported() {
				continue
			}
			if n, _ := namedStruct(fn.Type().(*types.Signature).Recv().Type()); n == nil || n.Obj() != tn {
				continue
			}
			fns = append(fns, fn)
		}
		if len(fns) == 0 {
			return nil, fmt.Errorf("%s.%s has no exported methods", tg.Pkg, tg.Type)
		}
		tr.Methods[tg.Type] = len(fns)
		// ... plus every other function of the package that itself acquires the target's lock
		// (methods of checkpoint/helper types, unexported entry points): its author relies on
		// the same discipline.
		isEntry := map[*types.Func]bool{}
		for _, fn := range fns {
			isEntry[fn] = true
		}
		for fn, fd := range pi.decls {
			if isEntry[fn] {
				continue
			}
			direct := false
			ast.Inspect(fd.Body, func(n ast.Node) bool {
				if call, ok := n.(*ast.CallExpr); ok {
					if op := lo.lockOp(call); op == "Lock" || op == "RLock" {
						direct = true
					}
				}
				return !direct
			})
			if direct {
				fns = append(fns, fn)
				tr.ExtraEntries = append(tr.ExtraEntries, tg.Type+":"+entryName(fn, tn))
			}
		}
		sort.Slice(fns, func(i, j int) bool { return fns[i].Pos() < fns[j].Pos() })
		for _, fn := range fns {
			fd := pi.decls[fn]
			byMode := [3]*accSet{newAcc(), newAcc(), newAcc()}
			used := [3]bool{}
			fresh := pi.freshVars(fd.Body)
			lo.walkModes(fd.Body.List, mNone, func(s ast.Stmt, mode int) {
				c := &funcCtx{pi: pi, acc: byMode[mode], fresh: fresh}
				c.stmt(s)
				used[mode] = true
			})
			pos := pi.fset.Position(fd.Pos())
			rel, _ := filepath.Rel(repo, pos.Filename)
			where := fmt.Sprintf("%s:%d", rel, pos.Line)
			for mode := 2; mode >= 0; mode-- {
				a := byMode[mode]
				if len(a.r)+len(a.w) == 0 {
					continue
				}
				kind := "locked"
				if mode == mNone {
					kind = "unlocked"
				}
				tr.Parts = append(tr.Parts, &Part{Group: tg.Type, Method: entryName(fn, tn), Kind: kind, Mode: mode, Reads: a.r, Writes: a.w, Pos: where})
			}
			// escape part (exported accessors of the target only: other lock-taking functions are
			// summarised for their lock modes; what they hand out are back references by design)
			if !isEntry[fn] {
				continue
			}
			rets, _ := pi.returns(fd, false)
			esc := map[string]bool{}
			var what []string
			deep := lvInf
			for _, r := range rets {
				if r.level >= lvInf {
					continue
				}
				var rt types.Type
				if r.expr != nil {
					rt = pi.info.TypeOf(r.expr)
				} else {
					rt = fn.Type().(*types.Signature).Results().At(r.idx).Type()
				}
				ts := types.TypeString(rt, func(p *types.Package) string { return p.Name() })
				if r.level >= 2 {
					// a copy at least two private layers deep: whether anything is still shared is decided
					// on the real object by the reflect walk (snapshots.go), not claimed here
					deep = minI(deep, r.level)
					continue
				}
				pi.regions(rt, r.level, esc)
				if se, ok := r.expr.(*ast.SelectorExpr); ok && r.level == 0 && isRefType(rt) {
					if locs := pi.fieldLocs(se); len(locs) > 0 {
						esc[locs[len(locs)-1]] = true // the returned container itself is a field of the state
					}
				}
				what = append(what, fmt.Sprintf("result %d (%s) %s", r.idx, ts, []string{"refers to protected memory", "is a fresh value holding references to protected memory"}[r.level]))
			}
			if deep < lvInf {
				tr.Deep = append(tr.Deep, DeepReturn{Group: tg.Type, Method: entryName(fn, tn), Level: deep, Params: fn.Type().(*types.Signature).Params().Len(), Pos: where})
			}
			if len(esc) > 0 {
				sort.Strings(what)
				tr.Parts = append(tr.Parts, &Part{Group: tg.Type, Method: entryName(fn, tn), Kind: "escape", Mode: mNone, Reads: esc, Writes: map[string]bool{}, Pos: where,
					Note: strings.Join(dedupe(what), "; ")})
			}
		}
		tr.Unknown[tg.Type] = pi.unknown
	}
	// stable ids
	for i, p := range tr.Parts {
		p.ID = i + 1
	}
	all := map[string]bool{}
	for _, p := range tr.Parts {
		for l := range p.Reads {
			all[l] = true
		}
		for l := range p.Writes {
			all[l] = true
		}
	}
	var locs []string
	for l := range all {
		locs = append(locs, l)
	}
	sort.Strings(locs)
	tr.Locs = append([]string{"<none>"}, locs...)
	for i, l := range tr.Locs {
		tr.LocID[l] = i
	}
	return tr, nil
}

func dedupe(xs []string) []string {
	var out []string
	for i, x := range xs {
		if i == 0 || x != xs[i-1] {
			out = append(out, x)
		}
	}
	return out
}

func sortedKeys(m map[string]bool) []string {
	var ks []string
	for k := range m {
		ks = append(ks, k)
	}
	sort.Strings(ks)
	return ks
}

// writeGen emits coq/gen/C40_summaries.v.
func (tr *Translation) writeGen(path string, allowedNow []string) error {
	var sb strings.Builder
	sb.WriteString("(* GENERATED by harness/cmd/c40 (translate.go) from the source tree on every run. Do not edit. *)\n")
	sb.WriteString("From Coq Require Import List NArith String.\nFrom ELA Require Import model.C40_Locks.\nImport ListNotations.\nLocal Open Scope N_scope.\nLocal Open Scope string_scope.\n\n")
	sb.WriteString("Definition mk (id : N) (m : mode) (rs ws : list N) : summary :=\n  {| s_id := id; s_mode := m;\n     s_acc := map (fun l => {| a_loc := l; a_write := false |}) rs ++ map (fun l => {| a_loc := l; a_write := true |}) ws |}.\n\n")
	sb.WriteString("(* locations:\n")
	for i, l := range tr.Locs {
		fmt.Fprintf(&sb, "   %d %s\n", i, l)
	}
	sb.WriteString("*)\n\n")
	ids := func(m map[string]bool, skips ...map[string]bool) string {
		var xs []string
	next:
		for _, k := range sortedKeys(m) {
			for _, skip := range skips {
				if skip != nil && skip[k] {
					continue next
				}
			}
			xs = append(xs, fmt.Sprint(tr.LocID[k]))
		}
		return "[" + strings.Join(xs, ";") + "]"
	}
	for _, g := range tr.Groups {
		// a read of a location nobody in the group writes cannot conflict: left out (keeps evaluation fast)
		unwritten := map[string]bool{}
		for _, l := range tr.Locs {
			unwritten[l] = true
		}
		for _, p := range tr.Parts {
			if p.Group == g {
				for l := range p.Writes {
					delete(unwritten, l)
				}
			}
		}
		var names []string
		for _, p := range tr.Parts {
			if p.Group != g {
				continue
			}
			fmt.Fprintf(&sb, "(* %s  %s *)\nDefinition p%d := mk %d %s %s %s.\n", p.Name(), p.Pos, p.ID, p.ID, modeName[p.Mode], ids(p.Reads, p.Writes, unwritten), ids(p.Writes))
			names = append(names, fmt.Sprintf("p%d", p.ID))
		}
		fmt.Fprintf(&sb, "Definition group_%s : list summary := [%s].\n\n", g, strings.Join(names, "; "))
	}
	sb.WriteString("Definition groups : list (list summary) := [" + strings.Join(prefixAll("group_", tr.Groups), "; ") + "].\n\n")
	sb.WriteString("Definition part_names : list (N * string) := [\n")
	for i, p := range tr.Parts {
		if i > 0 {
			sb.WriteString(";\n")
		}
		fmt.Fprintf(&sb, "  (%d, \"%s\")", p.ID, p.Name())
	}
	sb.WriteString("\n].\n\n")
	var aids []string
	for _, p := range tr.Parts {
		for _, a := range allowedNow {
			if p.Name() == a {
				aids = append(aids, fmt.Sprint(p.ID))
			}
		}
	}
	sb.WriteString("(* checkpoint manager hand-off table: one row per channel of fileChannels carrying a checkpoint:\n   (id, a live (non-Snapshot()) value is handed over at some call site, number of state-method calls on the carried value in the file goroutine) *)\n")
	var rows []string
	for i, ch := range tr.Ckpt {
		fmt.Fprintf(&sb, "(* %d %s: sender %s; live sites %v; snapshot sites %v; state uses %v *)\n", i, ch.Name, ch.Sender, ch.LiveSites, ch.SnapSites, ch.StateUses)
		live := "false"
		if len(ch.LiveSites) > 0 {
			live = "true"
		}
		rows = append(rows, fmt.Sprintf("(%d, %s, %d)", i, live, len(ch.StateUses)))
	}
	sb.WriteString("Definition ckpt_table : list (N * bool * N) := [" + strings.Join(rows, "; ") + "].\n\n")
	sb.WriteString("(* allow-listed parts whose side condition (call sites) the translator confirmed on this tree *)\n")
	sb.WriteString("Definition allowed_ids : list N := [" + strings.Join(aids, ";") + "].\n")
	if err := os.MkdirAll(filepath.Dir(path), 0o755); err != nil {
		return err
	}
	tmp := path + ".tmp"
	if err := os.WriteFile(tmp, []byte(sb.String()), 0o644); err != nil {
		return err
	}
	return os.Rename(tmp, path)
}

func prefixAll(p string, xs []string) []string {
	var out []string
	for _, x := range xs {
		out = append(out, p+x)
	}
	return out
}
