// C40 (b): snapshot isolation of the DPoS, CR and txpool checkpoints, checked
// on the real objects by pointer identity and by mutation of the live state.
package main

import (
	"bytes"
	"fmt"
	"reflect"
	"sort"
	"strings"

	"github.com/elastos/Elastos.ELA/blockchain"
	"github.com/elastos/Elastos.ELA/common"
	"github.com/elastos/Elastos.ELA/common/config"
	"github.com/elastos/Elastos.ELA/core/checkpoint"
	"github.com/elastos/Elastos.ELA/core/transaction"
	"github.com/elastos/Elastos.ELA/core/types/functions"
	"github.com/elastos/Elastos.ELA/core/types/interfaces"
	"github.com/elastos/Elastos.ELA/core/types/payload"
	crstate "github.com/elastos/Elastos.ELA/cr/state"
	dstate "github.com/elastos/Elastos.ELA/dpos/state"
	"github.com/elastos/Elastos.ELA/mempool"

	"verifharness/lib"
)

// policy: what is not protected state (function values and channels are
// always skipped).
func newPolicy() *Policy {
	return &Policy{
		SkipTypes: map[string]bool{
			"config.Configuration": true, "checkpoint.Manager": true, "utils.History": true,
			"sync.RWMutex": true, "sync.Mutex": true, "state.degradation": true,
		},
		SkipFields: map[string]bool{
			// back references of a checkpoint to the object it was taken from
			"CheckPoint.arbitrators": true, "Checkpoint.committee": true,
			"txPoolCheckpoint.txPool": true, "txPoolCheckpoint.initConflictManager": true,
			// in-memory snapshot store of the live arbiters (holds older copies, not the live state)
			"Arbiters.Snapshots": true,
		},
	}
}

type world struct {
	params    *config.Configuration
	ckp       *checkpoint.Manager
	committee *crstate.Committee
	arbiters  *dstate.Arbiters
	pool      *mempool.TxPool
	filler    *Filler
	pol       *Policy
}

func unexported(v reflect.Value, name string) reflect.Value {
	f := v.FieldByName(name)
	if !f.IsValid() {
		panic("C40: field " + name + " not found in " + v.Type().String())
	}
	return settable(f)
}

// newWorld builds live DPoS arbiters, a CR committee and a transaction pool
// through the repository's constructors and fills every container of their
// key frames with deterministic content.
func newWorld(rng *lib.Rng, n int) *world {
	w := &world{pol: newPolicy()}
	functions.GetTransactionByBytes = transaction.GetTransactionByBytes
	functions.CreateTransaction = transaction.CreateTransaction
	functions.GetTransactionByTxType = transaction.GetTransaction
	functions.GetTransactionParameters = transaction.GetTransactionparameters
	p := *config.GetDefaultParams()
	w.params = &p
	config.DefaultParams = p
	w.ckp = checkpoint.NewManager(w.params)
	w.committee = crstate.NewCommittee(w.params, w.ckp)
	arb, err := dstate.NewArbitrators(w.params, w.committee, nil, nil, nil, nil, nil, nil, nil, w.ckp)
	if err != nil {
		panic(err)
	}
	w.arbiters = arb
	blockchain.DefaultLedger = &blockchain.Ledger{Blockchain: blockchain.NewRetargetVerif(w.params)}
	w.pool = mempool.NewTxPool(w.params, w.ckp)

	f := &Filler{Rng: rng, Pol: w.pol, N: n, MaxDepth: 14, Factories: map[string]func(*Filler) reflect.Value{}, After: map[string]func(reflect.Value){}}
	w.filler = f

	// ArbiterMember implementations are unexported: obtain their types from the constructors
	var memberTypes []reflect.Type
	pk, _ := common.HexStringToBytes("03e435ccd6073813917c2d841a0815d21301ec3286bc1412bb5b099178c68a10b6")
	if m, err := dstate.NewOriginArbiter(pk); err == nil {
		memberTypes = append(memberTypes, reflect.TypeOf(m))
	}
	prod := &dstate.Producer{}
	f.Fill(reflect.ValueOf(prod).Elem(), 0)
	prod.SetInfo(payload.ProducerInfo{OwnerKey: pk, NodePublicKey: pk})
	if m, err := dstate.NewDPoSArbiter(prod); err == nil {
		memberTypes = append(memberTypes, reflect.TypeOf(m))
	}
	crm := &crstate.CRMember{}
	f.Fill(reflect.ValueOf(crm).Elem(), 0)
	if m, err := dstate.NewCRCArbiter(pk, pk, crm, true); err == nil {
		memberTypes = append(memberTypes, reflect.TypeOf(m))
	}
	if len(memberTypes) != 3 {
		panic("C40: could not obtain the three ArbiterMember implementations")
	}
	k := 0
	f.Factories["state.ArbiterMember"] = func(f *Filler) reflect.Value {
		t := memberTypes[k%len(memberTypes)]
		k++
		p := reflect.New(t.Elem())
		f.Fill(p.Elem(), 2)
		return p
	}
	// map[Uint256]interface{} of illegal block payload hashes: values are nil in the code
	f.Factories["interface {}"] = func(f *Filler) reflect.Value { return reflect.Value{} }
	installCodecInvariants(f)

	// --- DPoS: the key frame and the arbiter-level fields a checkpoint records
	av := reflect.ValueOf(arb).Elem()
	f.Fill(reflect.ValueOf(arb.State.StateKeyFrame).Elem(), 0)
	for _, name := range []string{"DutyIndex", "CurrentReward", "NextReward", "LastDPoSRewards", "LastArbitrators",
		"CurrentArbitrators", "CurrentCandidates", "nextArbitrators", "nextCandidates", "CurrentCRCArbitersMap",
		"nextCRCArbitersMap", "nextCRCArbiters", "crcChangedHeight", "accumulativeReward", "finalRoundChange",
		"clearingHeight", "arbitersRoundReward", "illegalBlocksPayloadHashes", "forceChanged"} {
		f.Fill(unexported(av, name), 0)
	}

	// --- CR: committee key frame, state key frame, proposal key frame
	cv := reflect.ValueOf(w.committee).Elem()
	f.Fill(unexported(cv, "KeyFrame"), 0)
	f.Fill(unexported(unexported(cv, "state").Elem(), "StateKeyFrame"), 0)
	f.Fill(unexported(unexported(cv, "manager").Elem(), "ProposalKeyFrame"), 0)
	return w
}

// dposLiveRoots etc.: the live object graph a snapshot must be disjoint from.
func (w *world) liveDPoS() reflect.Value { return reflect.ValueOf(w.arbiters) }
func (w *world) liveCR() reflect.Value   { return reflect.ValueOf(w.committee) }
func (w *world) livePool() reflect.Value { return reflect.ValueOf(w.pool) }

type snapResult struct {
	Kind        string   // which snapshot function
	Nil         bool     // Snapshot returned nil (codec failed on the filled state)
	Idents      int      // identities reachable from the snapshot
	LiveIdents  int      // identities reachable from the live state
	Shared      []string // "Site|snapshotPath <=> livePath"
	SharedSites []string // distinct Site labels of Shared
	Changed     bool     // the snapshot's canonical form changed when the live state was mutated
	LiveChanged bool     // taking the snapshot changed the live state's canonical form
	Perturbed   int
	Diff        string
}

func sitesOf(shared []string) []string {
	m := map[string]bool{}
	for _, s := range shared {
		m[strings.SplitN(s, "|", 2)[0]] = true
	}
	var out []string
	for k := range m {
		out = append(out, k)
	}
	sort.Strings(out)
	return out
}

func firstDiff(a, b string) string {
	n := len(a)
	if len(b) < n {
		n = len(b)
	}
	i := 0
	for i < n && a[i] == b[i] {
		i++
	}
	lo := i - 120
	if lo < 0 {
		lo = 0
	}
	hi := i + 60
	ha, hb := hi, hi
	if ha > len(a) {
		ha = len(a)
	}
	if hb > len(b) {
		hb = len(b)
	}
	return fmt.Sprintf("at %d: before=…%s  after=…%s", i, a[lo:ha], b[lo:hb])
}

// checkSnapshot: take := the real snapshot function; live := the live graph.
func (w *world) checkSnapshot(kind string, live reflect.Value, take func() interface{}) snapResult {
	r := snapResult{Kind: kind}
	before := Canon(live, w.pol)
	s := take()
	if s == nil || (reflect.ValueOf(s).Kind() == reflect.Ptr && reflect.ValueOf(s).IsNil()) {
		r.Nil = true
		return r
	}
	after := Canon(live, w.pol)
	if before != after {
		r.LiveChanged = true
		r.Diff = firstDiff(before, after)
	}
	sv := reflect.ValueOf(s)
	li := Walk(live, w.pol)
	si := Walk(sv, w.pol)
	r.Idents, r.LiveIdents = len(si), len(li)
	r.Shared = Shared(li, si)
	r.SharedSites = sitesOf(r.Shared)
	c0 := Canon(sv, w.pol)
	r.Perturbed = Perturb(live, w.pol)
	c1 := Canon(sv, w.pol)
	if c0 != c1 {
		r.Changed = true
		if r.Diff == "" {
			r.Diff = firstDiff(c0, c1)
		}
	}
	return r
}

// serializes reports whether the live DPoS/CR state survives its own codec
// (otherwise the filler produced something the codec rejects and the
// Snapshot()=nil outcome says nothing about isolation).
func roundTrips(s common.Serializable, fresh common.Serializable) error {
	buf := new(bytes.Buffer)
	if err := s.Serialize(buf); err != nil {
		return fmt.Errorf("serialize: %v", err)
	}
	if err := fresh.Deserialize(buf); err != nil {
		return fmt.Errorf("deserialize: %v", err)
	}
	return nil
}

var _ interfaces.Transaction

func (w *world) dposCheckpoint() *dstate.CheckPoint { return dstate.NewCheckpoint(w.arbiters) }
func (w *world) crCheckpoint() *crstate.Checkpoint  { return crstate.NewCheckpoint(w.committee) }

// fillPool puts n transfer transactions into the live pool's three indexes
// (txnList, fee list, conflict slots) without going through validation.
func (w *world) fillPool() {
	pv := reflect.ValueOf(w.pool).Elem()
	cp := unexported(pv, "txPoolCheckpoint").Elem()
	txnList := unexported(cp, "txnList")
	txFees := unexported(cp, "txFees")
	var txs []interfaces.Transaction
	for i := 0; i < w.filler.N; i++ {
		tx := w.randomTx()
		txs = append(txs, tx)
		txnList.SetMapIndex(reflect.ValueOf(tx.Hash()), reflect.ValueOf(&tx).Elem())
		res := txFees.MethodByName("AddTx").Call([]reflect.Value{reflect.ValueOf(&tx).Elem()})
		if !res[0].IsNil() {
			panic(fmt.Sprint("C40: txFees.AddTx: ", res[0].Interface()))
		}
	}
	// conflict slots: every key set of every slot refers to pool transactions
	k := 0
	w.filler.Factories["interfaces.Transaction"] = func(f *Filler) reflect.Value {
		k++
		return reflect.ValueOf(&txs[k%len(txs)]).Elem()
	}
	slots := unexported(unexported(pv, "conflictManager"), "conflictSlots")
	if slots.Len() == 0 {
		panic("C40: no conflict slots")
	}
	for i := 0; i < slots.Len(); i++ {
		slot := unexported(slots.Index(i).Elem(), "slot").Elem()
		for _, name := range []string{"stringSet", "hashSet", "programHashSet"} {
			w.filler.Fill(unexported(slot, name), 0)
		}
	}
	w.filler.Fill(unexported(pv, "crossChainHeightList"), 0)
	w.filler.Fill(unexported(pv, "txReceivingInfo"), 0)
	w.filler.Fill(unexported(pv, "proposalsUsedAmount"), 0)
}

// collectByType gathers, from the live graph, map keys and pointer targets by
// type: candidate arguments for accessor calls.
func collectByType(root reflect.Value, pol *Policy) map[reflect.Type][]reflect.Value {
	out := map[reflect.Type][]reflect.Value{}
	seen := map[[2]uintptr]bool{}
	var rec func(v reflect.Value, d int)
	rec = func(v reflect.Value, d int) {
		if !v.IsValid() || d > 40 || pol.skipType(v.Type()) {
			return
		}
		switch v.Kind() {
		case reflect.Ptr:
			if v.IsNil() || pol.skipType(v.Type().Elem()) {
				return
			}
			k := [2]uintptr{v.Pointer(), typeID(v.Type())}
			if seen[k] {
				return
			}
			seen[k] = true
			rec(v.Elem(), d+1)
		case reflect.Map:
			if v.IsNil() {
				return
			}
			rv := readable(v)
			keys := rv.MapKeys()
			sortValues(keys)
			for _, k := range keys {
				if len(out[k.Type()]) < 6 {
					out[k.Type()] = append(out[k.Type()], k)
				}
				rec(rv.MapIndex(k), d+1)
			}
		case reflect.Slice, reflect.Array:
			if v.Kind() == reflect.Slice && v.Type().Elem().Kind() == reflect.Uint8 {
				return
			}
			for i := 0; i < v.Len(); i++ {
				rec(v.Index(i), d+1)
			}
		case reflect.Struct:
			for i := 0; i < v.NumField(); i++ {
				if pol.skipField(v.Type(), v.Type().Field(i)) {
					continue
				}
				rec(v.Field(i), d+1)
			}
		case reflect.Interface:
			if !v.IsNil() {
				rec(v.Elem(), d+1)
			}
		}
	}
	rec(root, 0)
	return out
}

// checkDeepReturn calls an exported accessor whose result the translator
// classified as a copy two or more private layers deep, on a populated live
// object, and looks for anything the result still shares with the live state.
func (w *world) checkDeepReturn(d DeepReturn) (res snapResult, called int) {
	var obj, live reflect.Value
	switch d.Group {
	case "State":
		obj, live = reflect.ValueOf(w.arbiters.State), w.liveDPoS()
	case "Committee":
		obj, live = reflect.ValueOf(w.committee), w.liveCR()
	case "TxPool":
		w.fillPool()
		obj, live = reflect.ValueOf(w.pool), w.livePool()
	}
	res = snapResult{Kind: d.Group + "." + d.Method}
	m := obj.MethodByName(d.Method)
	if !m.IsValid() {
		res.Nil = true
		return
	}
	cands := collectByType(live, w.pol)
	mt := m.Type()
	merged := map[string]bool{}
	for try := 0; try < 6; try++ {
		args := make([]reflect.Value, mt.NumIn())
		for i := range args {
			at := mt.In(i)
			a := reflect.New(at).Elem()
			w.filler.Fill(a, 0)
			// prefer values present in the state (existing keys) on the first tries
			base := at
			if at.Kind() == reflect.Ptr {
				base = at.Elem()
			}
			if cs := cands[base]; len(cs) > try {
				if at.Kind() == reflect.Ptr {
					p := reflect.New(base)
					p.Elem().Set(cs[try])
					a = p
				} else {
					a = cs[try]
				}
			} else if at.Kind() == reflect.Uint8 || at.Kind() == reflect.Uint32 {
				a.SetUint(uint64(try))
			}
			args[i] = a
		}
		var outs []reflect.Value
		if p, _ := lib.Recover(func() { outs = m.Call(args) }); p {
			continue
		}
		called++
		li := Walk(live, w.pol)
		for _, o := range outs {
			if o.Kind() == reflect.Interface && !o.IsNil() && o.Type().Name() == "error" {
				continue
			}
			si := Walk(o, w.pol)
			res.Idents += len(si)
			for _, s := range Shared(li, si) {
				merged[s] = true
			}
		}
		if mt.NumIn() == 0 {
			break
		}
	}
	for s := range merged {
		res.Shared = append(res.Shared, s)
	}
	sort.Strings(res.Shared)
	res.SharedSites = sitesOf(res.Shared)
	return
}
