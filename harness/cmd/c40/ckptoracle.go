// C40 dynamic oracle for the checkpoint manager: the real Manager.OnBlockSaved
// (asynchronous saves, NeedSave=true) is driven with a probe checkpoint whose
// Snapshot records the goroutine it runs on and whose state is changed by the
// "next block" right after OnBlockSaved returns.  Oracle: Snapshot of the live
// probe only ever runs on the block path; Serialize only ever runs on a copy;
// the file saved for height H decodes to the state as of H.
package main

import (
	"bytes"
	"fmt"
	"io"
	"math"
	"os"
	"path/filepath"
	"runtime"
	"strconv"
	"strings"
	"sync"
	"time"

	"github.com/elastos/Elastos.ELA/common"
	"github.com/elastos/Elastos.ELA/common/config"
	"github.com/elastos/Elastos.ELA/core/checkpoint"
	"github.com/elastos/Elastos.ELA/core/types"
	elatx "github.com/elastos/Elastos.ELA/core/types/common"

	"verifharness/lib"
)

func goid() int {
	var buf [64]byte
	n := runtime.Stack(buf[:], false)
	f := strings.Fields(string(buf[:n]))
	if len(f) > 1 {
		id, _ := strconv.Atoi(f[1])
		return id
	}
	return -1
}

type probeShared struct {
	mu          sync.Mutex
	blockPath   int   // goroutine id of the block path
	offPathSnap []int // heights whose Snapshot of the live probe ran on another goroutine
	liveSerial  []int // heights at which Serialize ran on the live probe
	snapshots   int
	period      uint32
}

type probePoint struct {
	sh      *probeShared
	live    bool
	height  uint32
	applied uint32
	perKey  map[uint32]uint32
}

func (c *probePoint) OnBlockSaved(b *types.DposBlock) {
	c.applied = b.Height
	c.perKey[b.Height] = b.Height
	delete(c.perKey, b.Height-8)
}
func (c *probePoint) OnRollbackTo(uint32) error     { return nil }
func (c *probePoint) OnRollbackSeekTo(uint32)       {}
func (c *probePoint) OnReset() error                { return nil }
func (c *probePoint) OnInit()                       {}
func (c *probePoint) Key() string                   { return "c40probe" }
func (c *probePoint) GetHeight() uint32             { return c.height }
func (c *probePoint) SetHeight(h uint32)            { c.height = h }
func (c *probePoint) SavePeriod() uint32            { return c.sh.period }
func (c *probePoint) SaveStartHeight() uint32       { return 0 }
func (c *probePoint) StartHeight() uint32           { return 0 }
func (c *probePoint) EffectivePeriod() uint32       { return math.MaxUint32 / 2 }
func (c *probePoint) DataExtension() string         { return ".c40" }
func (c *probePoint) Priority() checkpoint.Priority { return checkpoint.Medium }
func (c *probePoint) LogError(err error)            {}
func (c *probePoint) Generator() func(buf []byte) checkpoint.ICheckPoint {
	return func(buf []byte) checkpoint.ICheckPoint {
		r := &probePoint{sh: c.sh}
		if r.Deserialize(bytes.NewReader(buf)) != nil {
			return nil
		}
		return r
	}
}

func (c *probePoint) Snapshot() checkpoint.ICheckPoint {
	if c.live {
		c.sh.mu.Lock()
		off := goid() != c.sh.blockPath
		if off {
			c.sh.offPathSnap = append(c.sh.offPathSnap, int(c.height))
		}
		c.sh.snapshots++
		c.sh.mu.Unlock()
		if off {
			time.Sleep(3 * time.Millisecond) // copying a large state takes a while: the next block gets in
		}
	}
	r := &probePoint{sh: c.sh, height: c.height, applied: c.applied, perKey: make(map[uint32]uint32, len(c.perKey))}
	for k, v := range c.perKey {
		r.perKey[k] = v
	}
	return r
}

func (c *probePoint) Serialize(w io.Writer) error {
	if c.live {
		c.sh.mu.Lock()
		c.sh.liveSerial = append(c.sh.liveSerial, int(c.height))
		c.sh.mu.Unlock()
	}
	var max uint32
	for k := range c.perKey {
		if k > max {
			max = k
		}
	}
	for _, v := range []uint32{c.height, c.applied, uint32(len(c.perKey)), max} {
		if err := common.WriteUint32(w, v); err != nil {
			return err
		}
	}
	return nil
}

func (c *probePoint) Deserialize(r io.Reader) (err error) {
	var v [4]uint32
	for i := range v {
		if v[i], err = common.ReadUint32(r); err != nil {
			return
		}
	}
	c.height, c.applied = v[0], v[1]
	c.perKey = map[uint32]uint32{}
	for i := uint32(0); i < v[2]; i++ {
		c.perKey[v[3]-i] = v[3] - i
	}
	return
}

func runCkptOracle(run *lib.Run, rng *lib.Rng, st *lib.Stats, sh *lib.Shards, next func() int) {
	periods := []uint32{1, 2, 3}
	blocks := run.N(24, 200)
	for _, period := range periods {
		dir, err := os.MkdirTemp(run.Out, "ckpt")
		if err != nil {
			panic(err)
		}
		cfg := &config.Configuration{CheckPointConfiguration: config.CheckPointConfiguration{EnableHistory: true, NeedSave: true, DataPath: dir}}
		mgr := checkpoint.NewManager(cfg)
		shd := &probeShared{blockPath: goid(), period: period}
		pt := &probePoint{sh: shd, live: true, perKey: map[uint32]uint32{}}
		mgr.Register(pt)
		var panicVal interface{}
		for h := uint32(1); h <= uint32(blocks); h++ {
			p, v := lib.Recover(func() {
				mgr.OnBlockSaved(&types.DposBlock{Block: &types.Block{Header: elatx.Header{Height: h}}}, nil, false, math.MaxUint32, false)
			})
			if p {
				panicVal = v
				break
			}
			if rng.Chance(30) {
				runtime.Gosched()
			}
		}
		done := make(chan struct{})
		go func() { mgr.Close(); close(done) }()
		select {
		case <-done:
		case <-time.After(10 * time.Second):
		}
		// files
		bad, missing, okFiles := []string{}, []int{}, 0
		for h := period; h <= uint32(blocks); h += period {
			data, err := os.ReadFile(filepath.Join(dir, pt.Key(), fmt.Sprintf("%d.c40", h)))
			if err != nil {
				missing = append(missing, int(h))
				continue
			}
			got := &probePoint{sh: shd}
			if err := got.Deserialize(bytes.NewReader(data)); err != nil || got.height != h || got.applied != h {
				bad = append(bad, fmt.Sprintf("file %d.c40 holds height %d with the state after block %d", h, got.height, got.applied))
				continue
			}
			okFiles++
		}
		shd.mu.Lock()
		off, liveSer, snaps := shd.offPathSnap, shd.liveSerial, shd.snapshots
		shd.mu.Unlock()
		i := next()
		good := len(off) == 0 && len(liveSer) == 0 && len(bad) == 0 && len(missing) == 0 && panicVal == nil
		sh.Add(fmt.Sprintf("CSave %d %d %d %d %d %d %s", i, period, okFiles, len(off), len(liveSer), len(bad)+len(missing), lib.CoqBool(panicVal != nil)))
		st.LogCase(run.Out, i, map[string]interface{}{"op": "checkpoint-save", "period": period, "blocks": blocks, "files_ok": okFiles, "snapshots": snaps,
			"snapshot_off_block_path": off, "serialize_on_live": liveSer, "bad_files": bad, "missing": missing, "panic": fmt.Sprint(panicVal)})
		st.Count(fmt.Sprintf("ckptsave:%d:%d:%d:%v", period, blocks, okFiles, good), okFiles > 0 && snaps > 0, "checkpoint-save")
		in := map[string]interface{}{"save_period": period, "blocks": blocks, "snapshot_of_live_checkpoint_off_block_path_at_heights": truncI(off, 8),
			"serialize_of_live_checkpoint_at_heights": truncI(liveSer, 8), "bad_files": trunc(bad, 4), "missing_files": truncI(missing, 8)}
		if len(off) > 0 {
			failLater("ckpt-save:snapshot-off-block-path", "Manager.OnBlockSaved (asynchronous save): Snapshot() of the live registered checkpoint ran in another goroutine than the block path, concurrently with the processing of the next blocks", in)
		}
		if len(liveSer) > 0 {
			failLater("ckpt-save:serialize-live", "Manager.OnBlockSaved (asynchronous save): Serialize ran on the live registered checkpoint instead of a snapshot", in)
		}
		if len(bad) > 0 || len(missing) > 0 {
			failLater("ckpt-save:file-state", "the checkpoint file saved for height H does not hold the state as of H (or is missing)", in)
		}
		if panicVal != nil {
			failLater("ckpt-save:panic", "Manager.OnBlockSaved panicked", map[string]interface{}{"panic": fmt.Sprint(panicVal)})
		}
		if period == 2 {
			st.Sample(map[string]interface{}{"op": "checkpoint-save", "period": period, "blocks": blocks, "files_ok": okFiles, "snapshots": snaps})
		}
		os.RemoveAll(dir)
	}
}

func truncI(xs []int, n int) []int {
	if len(xs) > n {
		return xs[:n]
	}
	return xs
}
