// C40: hand-off discipline of the checkpoint manager (core/checkpoint).
// Translator: which functions run in the file goroutine (everything reachable
// from fileChannels.messageLoop, started by a go statement), which ICheckPoint
// methods they call on the value carried by each channel, and — for every call
// site of a sender (Save/Replace/...) — whether the value handed over is the
// result of Snapshot() or a live registered checkpoint.
package main

import (
	"fmt"
	"go/ast"
	"go/token"
	"go/types"
	"path/filepath"
	"sort"
)

const ckptPkg = modPath + "/core/checkpoint"

// methods of ICheckPoint that read or write the checkpointed state (the rest
// are constants/metadata: Key, DataExtension, SavePeriod, GetHeight, LogError...)
var ckptStateMethods = map[string]bool{"Snapshot": true, "Serialize": true, "Deserialize": true, "OnBlockSaved": true,
	"OnRollbackTo": true, "OnRollbackSeekTo": true, "OnInit": true, "OnReset": true}

type CkptChan struct {
	Name      string   // channel field of fileChannels
	Sender    string   // method that sends on it
	LiveSites []string // call sites handing over a value that is not a Snapshot() result
	SnapSites []string // call sites handing over a Snapshot() result
	StateUses []string // "Method@file:line" state methods called on the carried value in the file goroutine
	Handlers  []string // functions of the file goroutine serving this channel
}

func translateCkpt(repo string, listed map[string]*listedPkg) ([]*CkptChan, error) {
	pi, err := loadPkg(listed, ckptPkg)
	if err != nil {
		return nil, fmt.Errorf("load %s: %v", ckptPkg, err)
	}
	pos := func(p token.Pos) string {
		q := pi.fset.Position(p)
		rel, _ := filepath.Rel(repo, q.Filename)
		return fmt.Sprintf("%s:%d", rel, q.Line)
	}
	fcObj, _ := pi.pkg.Scope().Lookup("fileChannels").(*types.TypeName)
	icp, _ := pi.pkg.Scope().Lookup("ICheckPoint").(*types.TypeName)
	if fcObj == nil || icp == nil {
		return nil, fmt.Errorf("core/checkpoint: fileChannels or ICheckPoint not found")
	}
	if _, ok := icp.Type().Underlying().(*types.Interface); !ok {
		return nil, fmt.Errorf("core/checkpoint: ICheckPoint is not an interface")
	}
	fcStruct, ok := fcObj.Type().Underlying().(*types.Struct)
	if !ok {
		return nil, fmt.Errorf("core/checkpoint: fileChannels is not a struct")
	}
	isFC := func(t types.Type) bool { n, _ := namedStruct(t); return n != nil && n.Obj() == fcObj }
	chanField := func(e ast.Expr) string { // c.<field> of chan type on a fileChannels value
		se, ok := e.(*ast.SelectorExpr)
		if !ok {
			return ""
		}
		sel := pi.info.Selections[se]
		if sel == nil || sel.Kind() != types.FieldVal || !isFC(sel.Recv()) {
			return ""
		}
		if _, isChan := sel.Obj().Type().Underlying().(*types.Chan); !isChan {
			return ""
		}
		return sel.Obj().Name()
	}
	chans := map[string]*CkptChan{}
	for i := 0; i < fcStruct.NumFields(); i++ {
		if _, isChan := fcStruct.Field(i).Type().Underlying().(*types.Chan); isChan {
			chans[fcStruct.Field(i).Name()] = &CkptChan{Name: fcStruct.Field(i).Name()}
		}
	}
	// senders, the loop, the go statement
	senders := map[*types.Func]string{}
	var loop *ast.FuncDecl
	goStarted := false
	for fn, fd := range pi.decls {
		if fd.Recv != nil && isFC(fn.Type().(*types.Signature).Recv().Type()) {
			if fn.Name() == "messageLoop" {
				loop = fd
				continue
			}
			ast.Inspect(fd.Body, func(n ast.Node) bool {
				if s, ok := n.(*ast.SendStmt); ok {
					if f := chanField(s.Chan); f != "" && chans[f] != nil {
						senders[fn] = f
						chans[f].Sender = fn.Name()
					}
				}
				return true
			})
		}
		ast.Inspect(fd.Body, func(n ast.Node) bool {
			if g, ok := n.(*ast.GoStmt); ok {
				if se, ok := g.Call.Fun.(*ast.SelectorExpr); ok && se.Sel.Name == "messageLoop" {
					goStarted = true
				}
			}
			return true
		})
	}
	if loop == nil || !goStarted {
		return nil, fmt.Errorf("core/checkpoint: fileChannels.messageLoop or the go statement starting it not found")
	}
	// state-method uses reachable from a statement list, within the package
	var usesOf func(n ast.Node, seen map[*types.Func]bool, uses map[string]bool, handlers map[string]bool)
	usesOf = func(n ast.Node, seen map[*types.Func]bool, uses map[string]bool, handlers map[string]bool) {
		ast.Inspect(n, func(m ast.Node) bool {
			call, ok := m.(*ast.CallExpr)
			if !ok {
				return true
			}
			var callee *types.Func
			switch f := call.Fun.(type) {
			case *ast.Ident:
				callee, _ = pi.info.ObjectOf(f).(*types.Func)
			case *ast.SelectorExpr:
				if sel := pi.info.Selections[f]; sel != nil && sel.Kind() == types.MethodVal {
					fn := sel.Obj().(*types.Func)
					if _, isIface := sel.Recv().Underlying().(*types.Interface); isIface {
						if types.Implements(sel.Recv(), icp.Type().Underlying().(*types.Interface)) || types.Identical(sel.Recv(), icp.Type()) {
							if ckptStateMethods[fn.Name()] {
								uses[fn.Name()+"@"+pos(call.Pos())] = true
							}
						}
					} else {
						callee = fn
					}
				}
			}
			if callee != nil && callee.Pkg() == pi.pkg && !seen[callee] {
				seen[callee] = true
				if fd := pi.decls[callee]; fd != nil {
					handlers[callee.Name()] = true
					usesOf(fd.Body, seen, uses, handlers)
				}
			}
			return true
		})
	}
	served := map[string]bool{}
	ast.Inspect(loop.Body, func(n ast.Node) bool {
		cc, ok := n.(*ast.CommClause)
		if !ok || cc.Comm == nil {
			return true
		}
		var recv ast.Expr
		switch s := cc.Comm.(type) {
		case *ast.AssignStmt:
			if len(s.Rhs) == 1 {
				recv = s.Rhs[0]
			}
		case *ast.ExprStmt:
			recv = s.X
		}
		u, ok := recv.(*ast.UnaryExpr)
		if !ok || u.Op != token.ARROW {
			return true
		}
		f := chanField(u.X)
		ch := chans[f]
		if ch == nil {
			return true
		}
		served[f] = true
		uses, handlers := map[string]bool{}, map[string]bool{}
		for _, st := range cc.Body {
			usesOf(st, map[*types.Func]bool{}, uses, handlers)
		}
		ch.StateUses = sortedKeys(uses)
		ch.Handlers = sortedKeys(handlers)
		return true
	})
	// call sites of the senders and the provenance of the value handed over
	for _, fd := range pi.decls {
		snapVars := map[types.Object]bool{}
		other := map[types.Object]bool{}
		isSnapCall := func(e ast.Expr) bool {
			call, ok := e.(*ast.CallExpr)
			if !ok {
				return false
			}
			se, ok := call.Fun.(*ast.SelectorExpr)
			return ok && se.Sel.Name == "Snapshot" && len(call.Args) == 0
		}
		ast.Inspect(fd.Body, func(n ast.Node) bool {
			switch x := n.(type) {
			case *ast.AssignStmt:
				for i, l := range x.Lhs {
					if id, ok := l.(*ast.Ident); ok {
						if obj := pi.info.ObjectOf(id); obj != nil {
							if len(x.Lhs) == len(x.Rhs) && isSnapCall(x.Rhs[i]) {
								snapVars[obj] = true
							} else {
								other[obj] = true
							}
						}
					}
				}
			case *ast.RangeStmt:
				for _, l := range []ast.Expr{x.Key, x.Value} {
					if id, ok := l.(*ast.Ident); ok {
						if obj := pi.info.ObjectOf(id); obj != nil {
							other[obj] = true
						}
					}
				}
			}
			return true
		})
		ast.Inspect(fd.Body, func(n ast.Node) bool {
			call, ok := n.(*ast.CallExpr)
			if !ok || len(call.Args) == 0 {
				return true
			}
			se, ok := call.Fun.(*ast.SelectorExpr)
			if !ok {
				return true
			}
			sel := pi.info.Selections[se]
			if sel == nil || sel.Kind() != types.MethodVal {
				return true
			}
			f, ok := senders[sel.Obj().(*types.Func)]
			if !ok {
				return true
			}
			arg := call.Args[0]
			snap := isSnapCall(arg)
			if id, ok := arg.(*ast.Ident); ok {
				obj := pi.info.ObjectOf(id)
				snap = snapVars[obj] && !other[obj]
			}
			if snap {
				chans[f].SnapSites = append(chans[f].SnapSites, pos(call.Pos()))
			} else {
				chans[f].LiveSites = append(chans[f].LiveSites, pos(call.Pos()))
			}
			return true
		})
	}
	var out []*CkptChan
	for name, ch := range chans {
		if ch.Sender == "" && !served[name] {
			continue // e.g. the exit channel (carries no checkpoint)
		}
		sort.Strings(ch.LiveSites)
		sort.Strings(ch.SnapSites)
		out = append(out, ch)
	}
	sort.Slice(out, func(i, j int) bool { return out[i].Name < out[j].Name })
	if len(out) == 0 {
		return nil, fmt.Errorf("core/checkpoint: no checkpoint-carrying channels found")
	}
	hasSave := false
	for _, ch := range out {
		if len(ch.StateUses) > 0 {
			hasSave = true
		}
	}
	if !hasSave {
		return nil, fmt.Errorf("core/checkpoint: no channel whose handler serializes the carried checkpoint (save path not recognised)")
	}
	return out, nil
}
