// Reflect utilities for the C40 snapshot-isolation oracle: a deterministic
// filler (every map/slice/pointer reachable from a root gets content), an
// identity walk (addresses of every pointer target, map header and slice
// backing array), an in-place perturbation of a live object graph and a
// canonical dump (sorted map keys, no addresses).
package main

import (
	"fmt"
	"reflect"
	"sort"
	"strings"
	"unsafe"

	"verifharness/lib"
)

// settable returns an addressable, settable view of v even when v was reached
// through an unexported struct field.
func settable(v reflect.Value) reflect.Value {
	if v.CanSet() {
		return v
	}
	if v.CanAddr() {
		return reflect.NewAt(v.Type(), unsafe.Pointer(v.UnsafeAddr())).Elem()
	}
	return v
}

// readable returns a view of v whose Interface()/MapKeys may be used although
// v was obtained through an unexported field.
func readable(v reflect.Value) reflect.Value {
	if v.CanInterface() {
		return v
	}
	if v.CanAddr() {
		return reflect.NewAt(v.Type(), unsafe.Pointer(v.UnsafeAddr())).Elem()
	}
	// not addressable (map element, interface content): copy into a fresh slot
	c := reflect.New(v.Type()).Elem()
	func() {
		defer func() { recover() }()
		c.Set(v)
	}()
	return c
}

// Policy says which parts of an object graph are outside the protected state:
// function values, locks, configuration, back references.
type Policy struct {
	SkipTypes  map[string]bool // by reflect.Type.String() (after stripping one '*')
	SkipFields map[string]bool // "TypeName.field"
}

func (p *Policy) skipType(t reflect.Type) bool {
	switch t.Kind() {
	case reflect.Func, reflect.Chan, reflect.UnsafePointer:
		return true
	}
	n := strings.TrimPrefix(t.String(), "*")
	return p.SkipTypes[n]
}

func (p *Policy) skipField(st reflect.Type, f reflect.StructField) bool {
	if p.SkipFields[st.Name()+"."+f.Name] {
		return true
	}
	return p.skipType(f.Type)
}

// ---------------------------------------------------------------- fill

type Filler struct {
	Rng       *lib.Rng
	Pol       *Policy
	N         int // elements per container
	MaxDepth  int
	Factories map[string]func(f *Filler) reflect.Value // by type string: interfaces and types with codec invariants
	After     map[string]func(v reflect.Value)         // post-processing by type string (repair invariants)
}

func (f *Filler) Fill(v reflect.Value, depth int) {
	v = settable(v)
	t := v.Type()
	if f.Pol.skipType(t) {
		return
	}
	if fac, ok := f.Factories[t.String()]; ok {
		nv := fac(f)
		if nv.IsValid() {
			v.Set(nv)
		}
		return
	}
	defer func() {
		if a, ok := f.After[t.String()]; ok {
			a(v)
		}
	}()
	switch t.Kind() {
	case reflect.Bool:
		v.SetBool(f.Rng.Bool())
	case reflect.Int, reflect.Int8, reflect.Int16, reflect.Int32, reflect.Int64:
		v.SetInt(int64(f.Rng.Intn(100)))
	case reflect.Uint8:
		v.SetUint(uint64(f.Rng.Intn(3)))
	case reflect.Uint, reflect.Uint16, reflect.Uint32, reflect.Uint64:
		v.SetUint(uint64(f.Rng.Intn(100000)))
	case reflect.Float32, reflect.Float64:
		v.SetFloat(float64(f.Rng.Intn(1000)) / 8)
	case reflect.String:
		v.SetString(fmt.Sprintf("s%x", f.Rng.U64()&0xffffff))
	case reflect.Array:
		if t.Elem().Kind() == reflect.Uint8 {
			for i := 0; i < v.Len(); i++ {
				v.Index(i).SetUint(f.Rng.U64() & 0xff)
			}
			return
		}
		for i := 0; i < v.Len(); i++ {
			f.Fill(v.Index(i), depth+1)
		}
	case reflect.Slice:
		if depth > f.MaxDepth {
			return
		}
		if t.Elem().Kind() == reflect.Uint8 {
			b := f.Rng.Bytes(33)
			b[0] = 2 + b[0]&1
			v.Set(reflect.ValueOf(b).Convert(t))
			return
		}
		s := reflect.MakeSlice(t, f.N, f.N+1) // spare capacity: an append by the owner writes into the shared array
		for i := 0; i < f.N; i++ {
			f.Fill(s.Index(i), depth+1)
		}
		v.Set(s)
	case reflect.Map:
		if depth > f.MaxDepth {
			return
		}
		m := reflect.MakeMap(t)
		for i := 0; i < f.N; i++ {
			k := reflect.New(t.Key()).Elem()
			f.Fill(k, depth+1)
			e := reflect.New(t.Elem()).Elem()
			f.Fill(e, depth+1)
			m.SetMapIndex(k, e)
		}
		v.Set(m)
	case reflect.Ptr:
		if depth > f.MaxDepth {
			return
		}
		if f.Pol.skipType(t.Elem()) {
			return
		}
		p := reflect.New(t.Elem())
		f.Fill(p.Elem(), depth+1)
		v.Set(p)
	case reflect.Struct:
		for i := 0; i < t.NumField(); i++ {
			if f.Pol.skipField(t, t.Field(i)) {
				continue
			}
			f.Fill(v.Field(i), depth+1)
		}
	case reflect.Interface:
		// only through a factory
	}
}

// ---------------------------------------------------------------- identity walk

// Idents maps the address of every reference target (pointer target, map
// header, slice backing array of non-zero capacity) to the first path it was
// reached by.
type Ident struct{ Path, Site string }
type Idents map[uintptr]Ident

type walker struct {
	pol  *Policy
	out  Idents
	seen map[[2]uintptr]bool
}

func Walk(root reflect.Value, pol *Policy) Idents {
	w := &walker{pol: pol, out: Idents{}, seen: map[[2]uintptr]bool{}}
	w.walk(root, "", "root")
	return w.out
}

func typeID(t reflect.Type) uintptr {
	// address of the runtime type descriptor: the data word of the interface holding t
	return uintptr((*[2]unsafe.Pointer)(unsafe.Pointer(&t))[1])
}

func (w *walker) note(p uintptr, path, site string) {
	if p == 0 {
		return
	}
	if _, ok := w.out[p]; !ok {
		w.out[p] = Ident{path, site}
	}
}

func (w *walker) walk(v reflect.Value, path, site string) {
	if !v.IsValid() {
		return
	}
	t := v.Type()
	if w.pol.skipType(t) {
		return
	}
	switch t.Kind() {
	case reflect.Ptr:
		if v.IsNil() || w.pol.skipType(t.Elem()) {
			return
		}
		key := [2]uintptr{v.Pointer(), typeID(t)}
		if w.seen[key] {
			return
		}
		w.seen[key] = true
		if t.Elem().Size() > 0 {
			w.note(v.Pointer(), path, site)
		}
		w.walk(v.Elem(), path+"->", site)
	case reflect.Map:
		if v.IsNil() {
			return
		}
		key := [2]uintptr{v.Pointer(), typeID(t)}
		if w.seen[key] {
			return
		}
		w.seen[key] = true
		w.note(v.Pointer(), path, site)
		rv := readable(v)
		keys := rv.MapKeys()
		sortValues(keys)
		for _, k := range keys {
			w.walk(k, path+"[key]", site)
			w.walk(rv.MapIndex(k), path+"[]", site)
		}
	case reflect.Slice:
		if v.IsNil() {
			return
		}
		if t.Elem().Kind() == reflect.Uint8 {
			return // byte strings (keys, signatures, codes) are treated as immutable values
		}
		if v.Cap() > 0 && t.Elem().Size() > 0 {
			key := [2]uintptr{v.Pointer(), typeID(t)}
			if w.seen[key] && v.Len() > 0 {
				return
			}
			w.seen[key] = true
			w.note(v.Pointer(), "slice:"+path, site)
		}
		if hasRefs(t.Elem(), 0) {
			for i := 0; i < v.Len(); i++ {
				w.walk(v.Index(i), path+"[]", site)
			}
		}
	case reflect.Array:
		if hasRefs(t.Elem(), 0) {
			for i := 0; i < v.Len(); i++ {
				w.walk(v.Index(i), path+"[]", site)
			}
		}
	case reflect.Struct:
		for i := 0; i < t.NumField(); i++ {
			if w.pol.skipField(t, t.Field(i)) {
				continue
			}
			w.walk(v.Field(i), path+"."+t.Field(i).Name, t.Name()+"."+t.Field(i).Name)
		}
	case reflect.Interface:
		if v.IsNil() {
			return
		}
		w.walk(v.Elem(), path+"{"+v.Elem().Type().String()+"}", site)
	}
}

// hasRefs: does a value of type t contain (transitively, by value) a pointer,
// map, slice or interface?
func hasRefs(t reflect.Type, d int) bool {
	if d > 12 {
		return true
	}
	switch t.Kind() {
	case reflect.Ptr, reflect.Map, reflect.Slice, reflect.Interface:
		return true
	case reflect.Array:
		return hasRefs(t.Elem(), d+1)
	case reflect.Struct:
		for i := 0; i < t.NumField(); i++ {
			if hasRefs(t.Field(i).Type, d+1) {
				return true
			}
		}
	}
	return false
}

// Shared returns, sorted, "snapshotPath <=> livePath" for every address
// reachable from both graphs.
func Shared(live, snap Idents) []string {
	var out []string
	var hits [][3]string
	for p, sp := range snap {
		if lp, ok := live[p]; ok {
			hits = append(hits, [3]string{sp.Site, sp.Path, lp.Path})
		}
	}
	for _, h := range hits {
		// a shared object reached only through another shared object is a consequence, not a cause
		inner := false
		hp := strings.TrimPrefix(h[1], "slice:")
		for _, g := range hits {
			gp := strings.TrimPrefix(g[1], "slice:")
			if len(gp) < len(hp) && strings.HasPrefix(hp, gp) {
				inner = true
				break
			}
		}
		if !inner {
			site := h[0]
			if strings.HasPrefix(h[1], "slice:") {
				site = "slice:" + site
			}
			out = append(out, site+"|"+h[1]+" <=> "+h[2])
		}
	}
	sort.Strings(out)
	// dedupe (same field pair through many map entries)
	var res []string
	for i, s := range out {
		if i == 0 || s != out[i-1] {
			res = append(res, s)
		}
	}
	return res
}

// ---------------------------------------------------------------- canonical dump

func sortValues(vs []reflect.Value) {
	sort.Slice(vs, func(i, j int) bool { return keyString(vs[i]) < keyString(vs[j]) })
}

func keyString(v reflect.Value) string {
	var sb strings.Builder
	c := &canon{pol: &Policy{}, sb: &sb, seen: map[[2]uintptr]bool{}}
	c.dump(v, 0)
	return sb.String()
}

type canon struct {
	pol  *Policy
	sb   *strings.Builder
	seen map[[2]uintptr]bool
}

// Canon prints v without addresses, map entries sorted, following pointers
// (a pointer already on the current path prints as <cycle>).
func Canon(v reflect.Value, pol *Policy) string {
	var sb strings.Builder
	c := &canon{pol: pol, sb: &sb, seen: map[[2]uintptr]bool{}}
	c.dump(v, 0)
	return sb.String()
}

func (c *canon) dump(v reflect.Value, d int) {
	if !v.IsValid() {
		c.sb.WriteString("<invalid>")
		return
	}
	t := v.Type()
	if c.pol.skipType(t) {
		c.sb.WriteString("_")
		return
	}
	if d > 60 {
		c.sb.WriteString("<deep>")
		return
	}
	switch t.Kind() {
	case reflect.Bool:
		fmt.Fprintf(c.sb, "%t", v.Bool())
	case reflect.Int, reflect.Int8, reflect.Int16, reflect.Int32, reflect.Int64:
		fmt.Fprintf(c.sb, "%d", v.Int())
	case reflect.Uint, reflect.Uint8, reflect.Uint16, reflect.Uint32, reflect.Uint64, reflect.Uintptr:
		fmt.Fprintf(c.sb, "%d", v.Uint())
	case reflect.Float32, reflect.Float64:
		fmt.Fprintf(c.sb, "%x", v.Float())
	case reflect.String:
		fmt.Fprintf(c.sb, "%q", v.String())
	case reflect.Array, reflect.Slice:
		if t.Kind() == reflect.Slice && v.IsNil() {
			c.sb.WriteString("nil[]")
			return
		}
		if t.Elem().Kind() == reflect.Uint8 {
			c.sb.WriteString("x")
			for i := 0; i < v.Len(); i++ {
				fmt.Fprintf(c.sb, "%02x", v.Index(i).Uint())
			}
			return
		}
		c.sb.WriteString("[")
		for i := 0; i < v.Len(); i++ {
			if i > 0 {
				c.sb.WriteString(",")
			}
			c.dump(v.Index(i), d+1)
		}
		c.sb.WriteString("]")
	case reflect.Map:
		if v.IsNil() {
			c.sb.WriteString("nilmap")
			return
		}
		rv := readable(v)
		keys := rv.MapKeys()
		type kv struct {
			k string
			v reflect.Value
		}
		kvs := make([]kv, 0, len(keys))
		for _, k := range keys {
			kvs = append(kvs, kv{keyString(k), rv.MapIndex(k)})
		}
		sort.Slice(kvs, func(i, j int) bool { return kvs[i].k < kvs[j].k })
		c.sb.WriteString("{")
		for i, e := range kvs {
			if i > 0 {
				c.sb.WriteString(",")
			}
			c.sb.WriteString(e.k)
			c.sb.WriteString(":")
			c.dump(e.v, d+1)
		}
		c.sb.WriteString("}")
	case reflect.Ptr:
		if v.IsNil() {
			c.sb.WriteString("nil")
			return
		}
		if c.pol.skipType(t.Elem()) {
			c.sb.WriteString("_")
			return
		}
		key := [2]uintptr{v.Pointer(), typeID(t)}
		if c.seen[key] {
			c.sb.WriteString("<cycle>")
			return
		}
		c.seen[key] = true
		c.sb.WriteString("&")
		c.dump(v.Elem(), d+1)
		delete(c.seen, key)
	case reflect.Struct:
		c.sb.WriteString(t.Name() + "(")
		for i := 0; i < t.NumField(); i++ {
			if c.pol.skipField(t, t.Field(i)) {
				continue
			}
			c.sb.WriteString(t.Field(i).Name + "=")
			c.dump(v.Field(i), d+1)
			c.sb.WriteString(";")
		}
		c.sb.WriteString(")")
	case reflect.Interface:
		if v.IsNil() {
			c.sb.WriteString("nil")
			return
		}
		c.sb.WriteString(v.Elem().Type().String() + ":")
		c.dump(v.Elem(), d+1)
	default:
		c.sb.WriteString("_")
	}
}

// ---------------------------------------------------------------- perturb

// Perturb changes, in place, everything reachable from root: scalars get a
// different value, every slice element and every pointer target is changed
// where it lies, every map gets its existing entries changed (value types are
// re-stored, pointer values changed behind the pointer) and one entry deleted.
// Containers are never replaced, so an object shared with a copy changes
// under the copy.
type perturber struct {
	pol     *Policy
	seen    map[[2]uintptr]bool
	n       int
	inSlice bool // inside a slice backing array: scalars are left alone (slices are replaced, not written, by the code base)
}

func Perturb(root reflect.Value, pol *Policy) int {
	p := &perturber{pol: pol, seen: map[[2]uintptr]bool{}}
	p.do(root, 0)
	return p.n
}

func (p *perturber) do(v reflect.Value, d int) {
	if !v.IsValid() || d > 60 {
		return
	}
	t := v.Type()
	if p.pol.skipType(t) {
		return
	}
	if p.inSlice {
		switch t.Kind() {
		case reflect.Bool, reflect.Int, reflect.Int8, reflect.Int16, reflect.Int32, reflect.Int64, reflect.Uint, reflect.Uint8,
			reflect.Uint16, reflect.Uint32, reflect.Uint64, reflect.String:
			return
		}
	}
	switch t.Kind() {
	case reflect.Bool:
		if v.CanAddr() {
			v = settable(v)
			v.SetBool(!v.Bool())
			p.n++
		}
	case reflect.Int, reflect.Int8, reflect.Int16, reflect.Int32, reflect.Int64:
		if v.CanAddr() {
			v = settable(v)
			v.SetInt(v.Int() + 1)
			p.n++
		}
	case reflect.Uint, reflect.Uint8, reflect.Uint16, reflect.Uint32, reflect.Uint64:
		if v.CanAddr() {
			v = settable(v)
			v.SetUint(v.Uint() + 1)
			p.n++
		}
	case reflect.String:
		if v.CanAddr() {
			v = settable(v)
			v.SetString(v.String() + "~")
			p.n++
		}
	case reflect.Array:
		for i := 0; i < v.Len(); i++ {
			p.do(v.Index(i), d+1)
		}
	case reflect.Slice:
		if v.IsNil() {
			return
		}
		key := [2]uintptr{v.Pointer(), typeID(t)}
		if v.Cap() > 0 && p.seen[key] {
			return
		}
		p.seen[key] = true
		if !hasRefs(t.Elem(), 0) {
			return
		}
		old := p.inSlice
		p.inSlice = true
		for i := 0; i < v.Len(); i++ {
			p.do(v.Index(i), d+1)
		}
		p.inSlice = old
	case reflect.Map:
		if v.IsNil() {
			return
		}
		key := [2]uintptr{v.Pointer(), typeID(t)}
		if p.seen[key] {
			return
		}
		p.seen[key] = true
		defer func(o bool) { p.inSlice = o }(p.inSlice)
		p.inSlice = false
		rv := readable(v)
		keys := rv.MapKeys()
		sortValues(keys)
		for i, k := range keys {
			if i == len(keys)-1 && len(keys) > 1 {
				rv.SetMapIndex(k, reflect.Value{}) // delete one entry
				p.n++
				break
			}
			e := rv.MapIndex(k)
			switch e.Kind() {
			case reflect.Ptr, reflect.Map, reflect.Slice, reflect.Interface:
				p.do(e, d+1) // shared target changes in place
			default:
				c := reflect.New(t.Elem()).Elem()
				c.Set(e)
				p.do(c, d+1)
				rv.SetMapIndex(k, c)
			}
		}
	case reflect.Ptr:
		if v.IsNil() || p.pol.skipType(t.Elem()) {
			return
		}
		key := [2]uintptr{v.Pointer(), typeID(t)}
		if p.seen[key] {
			return
		}
		p.seen[key] = true
		defer func(o bool) { p.inSlice = o }(p.inSlice)
		p.inSlice = false
		p.do(v.Elem(), d+1)
	case reflect.Struct:
		for i := 0; i < t.NumField(); i++ {
			if p.pol.skipField(t, t.Field(i)) {
				continue
			}
			p.do(v.Field(i), d+1)
		}
	case reflect.Interface:
		if v.IsNil() {
			return
		}
		e := v.Elem()
		if e.Kind() == reflect.Ptr || e.Kind() == reflect.Map || e.Kind() == reflect.Slice {
			p.do(e, d+1)
		}
	}
}
