// C40 — Validation and state queries are safe under concurrency.
//
// (a) translator: per-method lock/field summaries of dpos/state.State,
//
//	cr/state.Committee and mempool.TxPool written to coq/gen/C40_summaries.v,
//	checked in Coq by the verified lockset checker; the same checker is
//	evaluated here to name the witness (method, field, conflicting method).
//
// (b) snapshot isolation of the DPoS / CR / txpool checkpoints by a reflect
//
//	walk over the real objects (pointer identities, then mutation).
//
// (c) thorough tier: concurrent driving under the race detector (search only).
package main

import (
	"fmt"
	"os"
	"os/exec"
	"path/filepath"
	"reflect"
	"regexp"
	"sort"
	"strings"

	"verifharness/elaenv"
	"verifharness/lib"
)

func main() {
	run := lib.ParseArgs()
	elaenv.InitLog(run.Out)
	rng := lib.NewRng(run.Seed)
	st := lib.NewStats("C40", "snapshot cases: one per snapshot function (DPoS CheckPoint.Snapshot, Arbiters.Snapshot, CR Checkpoint.Snapshot, Committee.Snapshot, txpool Snapshot) x container size, on live states whose every map/slice/pointer is populated by a reflect filler; non-trivial = snapshot non-nil with >0 reference identities and >0 live mutations applied. lockset cases: one per pair of method summaries with a conflicting field access; distinct by (method, method, field)")
	sh := &lib.Shards{Dir: run.Out, Imports: "From ELA Require Import corr.C40_corr model.C40_Locks gen.C40_summaries.", CaseType: "C40_corr.case",
		Mismatch: "C40_corr.mismatches", Scope: "N", PerShard: 400}
	id := 0
	next := func() int { id++; return id }

	runLockset(run, st, sh, next)
	runSnapshots(run, rng, st, sh, next)
	runDeepReturns(run, rng, st)
	runCkptOracle(run, rng, st, sh, next)
	if run.Thorough() {
		runRace(run, st)
	}

	flushFailures(st, pending)
	st.Traces = st.Evals
	sh.Flush()
	st.Write(run.Out)
}

// knownAliasSites: reference targets a snapshot function is known to share
// with the live state on the current tree (each is a recorded finding; the
// same table is in coq/model/C40_Locks.v [known_alias]).
var knownAliasSites = map[string]map[string]bool{
	"dpos.Arbiters.Snapshot": {"Producer.detailedDPoSV2Votes": true, "Producer.expiredNFTVotes": true},
}

// benignSharedSlices: slice backing arrays a copy shares with the live state
// that the code base only ever replaces as a whole (checked by reading every
// assignment: dpos/state/state.go processVotingContent, cr/state/committeeaction.go
// processVotingContent, committee.go updateCRMembers/resetNextMembers,
// proposalmanager.go); sharing them is not observable. Any other shared slice
// is reported.
var benignSharedSlices = map[string]bool{
	"slice:StateKeyFrame.UsedDposVotes":          true,
	"slice:StateKeyFrame.UsedCRVotes":            true,
	"slice:StateKeyFrame.UsedCRImpeachmentVotes": true,
	"slice:StateKeyFrame.UsedCRCProposalVotes":   true,
}

func runSnapshots(run *lib.Run, rng *lib.Rng, st *lib.Stats, sh *lib.Shards, next func() int) {
	sizes := []int{1, 2, 3}
	if run.Thorough() {
		sizes = []int{1, 2, 3, 5, 8}
	}
	for _, n := range sizes {
		for _, kind := range snapshotKinds {
			// a fresh world per case: Perturb destroys the live state
			w := newWorld(rng.Fork(), n)
			var r snapResult
			panicked, val := lib.Recover(func() { r = kind.run(w) })
			i := next()
			if panicked {
				if os.Getenv("C40_DEBUG") != "" {
					kind.run(newWorld(rng.Fork(), n))
				}
				failLater("snapshot:"+kind.name+":panic", "snapshot function panicked on a populated live state", map[string]interface{}{"kind": kind.name, "n": n, "panic": fmt.Sprint(val)})
				r = snapResult{Kind: kind.name, Nil: true}
			}
			var sites []string
			for _, s := range r.SharedSites {
				if !benignSharedSlices[s] {
					sites = append(sites, s)
				}
			}
			r.SharedSites = sites
			var unknown []string
			for _, s := range r.SharedSites {
				if !knownAliasSites[kind.name][s] {
					unknown = append(unknown, s)
				}
			}
			sh.Add(fmt.Sprintf("CSnap %d %d %s %d %d %s %s", i, kind.code, lib.CoqBool(r.Nil), r.Idents, len(unknown), lib.CoqBool(r.Changed && (len(unknown) > 0 || len(r.SharedSites) == 0)), lib.CoqBool(r.LiveChanged)))
			st.LogCase(run.Out, i, map[string]interface{}{"op": "snapshot", "kind": kind.name, "n": n, "nil": r.Nil, "idents": r.Idents, "live_idents": r.LiveIdents,
				"shared": trunc(r.Shared, 12), "shared_sites": r.SharedSites, "changed": r.Changed, "live_changed": r.LiveChanged, "perturbed": r.Perturbed, "diff": r.Diff})
			st.Count(fmt.Sprintf("snap:%s:%d:%d:%v", kind.name, n, r.Idents, r.SharedSites), !r.Nil && r.Idents > 0 && r.Perturbed > 0, "snapshot:"+kind.name)
			if r.Nil && !panicked {
				failLater("snapshot:"+kind.name+":nil", "Snapshot() returned nil on a populated live state (codec rejected it)", map[string]interface{}{"kind": kind.name, "n": n})
			}
			for _, s := range r.SharedSites {
				what := fmt.Sprintf("%s shares %s with the live state (same address reachable from both); a later change of the live state shows through the snapshot", kind.name, s)
				failLater("snapshot-alias:"+kind.name+":"+s, what, map[string]interface{}{"kind": kind.name, "n": n, "paths": trunc(filterPrefix(r.Shared, s+"|"), 4), "snapshot_changed_after_live_mutation": r.Changed})
			}
			if r.Changed && len(r.SharedSites) == 0 {
				failLater("snapshot-changed:"+kind.name, "snapshot changed when the live state was mutated although no shared address was found", map[string]interface{}{"kind": kind.name, "n": n, "diff": r.Diff})
			}
			if r.LiveChanged {
				failLater("snapshot-writes-live:"+kind.name, "taking the snapshot changed the live state", map[string]interface{}{"kind": kind.name, "n": n, "diff": r.Diff})
			}
			if n == 2 {
				st.Sample(map[string]interface{}{"op": "snapshot", "kind": kind.name, "idents": r.Idents, "live_idents": r.LiveIdents, "shared_sites": r.SharedSites, "perturbed": r.Perturbed})
			}
		}
	}
}

func trunc(xs []string, n int) []string {
	if len(xs) > n {
		return xs[:n]
	}
	return xs
}

func filterPrefix(xs []string, p string) []string {
	var out []string
	for _, x := range xs {
		if strings.HasPrefix(x, p) {
			out = append(out, x)
		}
	}
	return out
}

type snapKind struct {
	name string
	code int
	run  func(w *world) snapResult
}

var snapshotKinds = []snapKind{
	{"dpos.CheckPoint.Snapshot", 1, func(w *world) snapResult {
		cp := w.dposCheckpoint()
		return w.checkSnapshot("dpos.CheckPoint.Snapshot", w.liveDPoS(), func() interface{} { return cp.Snapshot() })
	}},
	{"dpos.Arbiters.Snapshot", 2, func(w *world) snapResult {
		return w.checkSnapshot("dpos.Arbiters.Snapshot", w.liveDPoS(), func() interface{} { return w.arbiters.Snapshot() })
	}},
	{"cr.Checkpoint.Snapshot", 3, func(w *world) snapResult {
		cp := w.crCheckpoint()
		return w.checkSnapshot("cr.Checkpoint.Snapshot", w.liveCR(), func() interface{} { return cp.Snapshot() })
	}},
	{"cr.Committee.Snapshot", 4, func(w *world) snapResult {
		return w.checkSnapshot("cr.Committee.Snapshot", w.liveCR(), func() interface{} { return w.committee.Snapshot() })
	}},
	{"mempool.txPoolCheckpoint.Snapshot", 5, func(w *world) snapResult {
		w.fillPool()
		return w.checkSnapshot("mempool.txPoolCheckpoint.Snapshot", w.livePool(), func() interface{} { return w.pool.Snapshot() })
	}},
}

var _ = reflect.TypeOf

var pending []pendingFail

func failLater(sig, what string, input interface{}) {
	pending = append(pending, pendingFail{sig, what, input})
}

// runDeepReturns: accessors the translator delegates to the dynamic oracle.
func runDeepReturns(run *lib.Run, rng *lib.Rng, st *lib.Stats) {
	var report []map[string]interface{}
	for _, d := range deepReturns {
		w := newWorld(rng.Fork(), 3)
		var r snapResult
		var called int
		if p, val := lib.Recover(func() { r, called = w.checkDeepReturn(d) }); p {
			report = append(report, map[string]interface{}{"method": d.Group + "." + d.Method, "panic": fmt.Sprint(val)})
			continue
		}
		var sites []string
		for _, s := range r.SharedSites {
			if !benignSharedSlices[s] && !benignDeepSlices[s] {
				sites = append(sites, s)
			}
		}
		st.Count(fmt.Sprintf("deep:%s.%s:%d:%v", d.Group, d.Method, r.Idents, sites), called > 0 && r.Idents > 0, "deep-copy-return")
		report = append(report, map[string]interface{}{"method": d.Group + "." + d.Method, "calls": called, "idents": r.Idents, "shared_sites": r.SharedSites})
		for _, s := range sites {
			failLater("snapshot-alias:"+d.Group+"."+d.Method+":"+s, fmt.Sprintf("%s.%s returns a copy that still shares %s with the protected state; callers read it after the lock is released", d.Group, d.Method, s),
				map[string]interface{}{"method": d.Group + "." + d.Method, "where": d.Pos, "paths": trunc(filterPrefix(r.Shared, s+"|"), 4)})
		}
	}
	st.Extra["deep_copy_returns_checked"] = report
}

// benignDeepSlices: see benignSharedSlices.
// Payload data of the registering transaction (budgets, custom-id lists, vote
// lists): built once when the transaction is processed, never written in place.
var benignDeepSlices = map[string]bool{
	"slice:DetailedVoteInfo.Info":                true,
	"slice:CRCProposalInfo.Budgets":              true,
	"slice:CRCProposalInfo.ReceivedCustomIDList": true,
	"slice:CRCProposalInfo.ReservedCustomIDList": true,
}

// runRace (thorough tier): build harness/cmd/c40race with the race detector,
// run it, and report the method pairs the detector names. Reports on methods
// that are recorded culprits are replays of those findings; a report naming
// only methods the model claims protected would be a concrete failing
// schedule. No report is never counted as evidence.
func runRace(run *lib.Run, st *lib.Stats) {
	bin := filepath.Join(run.Out, "c40race")
	args := []string{"build", "-race", "-tags", "verif", "-o", bin}
	if run.Repo != "/repo" {
		// scratch mode: same substitution as tools/check.py
		b, _ := os.ReadFile("/verif/harness/go.mod")
		mf := filepath.Join(run.Out, "race.go.mod")
		os.WriteFile(mf, []byte(strings.Replace(string(b), "=> /repo", "=> "+run.Repo, 1)), 0o644)
		if s, err := os.ReadFile(filepath.Join(run.Repo, "go.sum")); err == nil {
			os.WriteFile(filepath.Join(run.Out, "race.go.sum"), s, 0o644)
		}
		args = append(args, "-modfile", mf)
	}
	args = append(args, "./cmd/c40race")
	cmd := exec.Command("go", args...)
	cmd.Dir = "/verif/harness"
	cmd.Env = append(os.Environ(), "CGO_ENABLED=1", "GOFLAGS=-mod=mod", "GOPROXY=off", "GOSUMDB=off", "GOTOOLCHAIN=local")
	if out, err := cmd.CombinedOutput(); err != nil {
		st.Extra["race_run"] = "race build unavailable: " + err.Error() + " " + string(out[:minInt(len(out), 300)])
		return
	}
	re := regexp.MustCompile(`state\.\(\*(State|Committee)\)\.(\w+)`)
	pairs := map[string]int{}
	var reports []string
	fatal := map[string]string{}
	for _, mode := range []string{"replay1", "replay2", "getters"} {
		c := exec.Command(bin, "2s", mode)
		c.Env = append(os.Environ(), "GORACE=halt_on_error=0 history_size=2")
		out, _ := c.CombinedOutput()
		if i := strings.Index(string(out), "fatal error:"); i >= 0 {
			fatal[mode] = strings.SplitN(string(out)[i:], "\n", 2)[0] // the runtime's own crash (e.g. concurrent map writes)
		}
		rs := strings.Split(string(out), "WARNING: DATA RACE")[1:]
		reports = append(reports, rs...)
		for _, r := range rs {
			ms := map[string]bool{}
			for _, mm := range re.FindAllStringSubmatch(r, -1) {
				ms[mm[1]+"."+mm[2]] = true
			}
			var names []string
			for k := range ms {
				names = append(names, k)
			}
			sort.Strings(names)
			pairs[mode+": "+strings.Join(names, " | ")]++
		}
	}
	st.Extra["race_runtime_crashes"] = fatal
	st.Extra["race_reports"] = len(reports)
	st.Extra["race_method_sets"] = pairs
	st.Hist["race-detector-reports"] = len(reports)
}

func minInt(a, b int) int {
	if a < b {
		return a
	}
	return b
}
