// C40 — Validation and state queries are safe under concurrency.
//
// (a) translator: per-method lock/field summaries of dpos/state.State,
//     cr/state.Committee and mempool.TxPool written to coq/gen/C40_summaries.v,
//     checked in Coq by the verified lockset checker; the same checker is
//     evaluated here to name the witness (method, field, conflicting method).
// (b) snapshot isolation of the DPoS / CR / txpool checkpoints by a reflect
//     walk over the real objects (pointer identities, then mutation).
// (c) thorough tier: concurrent driving under the race detector (search only).
package main

import (
	"fmt"
	"os"
	"reflect"
	"strings"

	"verifharness/elaenv"
	"verifharness/lib"
)

func main() {
	run := lib.ParseArgs()
	elaenv.InitLog(run.Out)
	rng := lib.NewRng(run.Seed)
	st := lib.NewStats("C40", "snapshot cases: one per snapshot function (DPoS CheckPoint.Snapshot, Arbiters.Snapshot, CR Checkpoint.Snapshot, Committee.Snapshot, txpool Snapshot) x container size, on live states whose every map/slice/pointer is populated by a reflect filler; non-trivial = snapshot non-nil with >0 reference identities and >0 live mutations applied. lockset cases: one per pair of method summaries with a conflicting field access; distinct by (method, method, field)")
	sh := &lib.Shards{Dir: run.Out, Imports: "From ELA Require Import corr.C40_corr model.C40_Locks gen.C40_summaries.", CaseType: "C40_corr.case",
		Mismatch: "C40_corr.mismatches", Scope: "N", PerShard: 400}
	id := 0
	next := func() int { id++; return id }

	runLockset(run, st, sh, next)
	runSnapshots(run, rng, st, sh, next)

	st.Traces = st.Evals
	sh.Flush()
	st.Write(run.Out)
}

// knownAliasSites: reference targets a snapshot function is known to share
// with the live state on the current tree (each is a recorded finding; the
// same table is in coq/model/C40_Locks.v [known_alias]).
var knownAliasSites = map[string]map[string]bool{
	"dpos.Arbiters.Snapshot": {"Producer.detailedDPoSV2Votes": true, "Producer.expiredNFTVotes": true},
}

// benignSharedSlices: slice backing arrays a copy shares with the live state
// that the code base only ever replaces as a whole (checked by reading every
// assignment: dpos/state/state.go processVotingContent, cr/state/committeeaction.go
// processVotingContent, committee.go updateCRMembers/resetNextMembers,
// proposalmanager.go); sharing them is not observable. Any other shared slice
// is reported.
var benignSharedSlices = map[string]bool{
	"slice:StateKeyFrame.UsedDposVotes":          true,
	"slice:StateKeyFrame.UsedCRVotes":            true,
	"slice:StateKeyFrame.UsedCRImpeachmentVotes": true,
	"slice:StateKeyFrame.UsedCRCProposalVotes":   true,
}

func runSnapshots(run *lib.Run, rng *lib.Rng, st *lib.Stats, sh *lib.Shards, next func() int) {
	sizes := []int{1, 2, 3}
	if run.Thorough() {
		sizes = []int{1, 2, 3, 5, 8}
	}
	for _, n := range sizes {
		for _, kind := range snapshotKinds {
			// a fresh world per case: Perturb destroys the live state
			w := newWorld(rng.Fork(), n)
			var r snapResult
			panicked, val := lib.Recover(func() { r = kind.run(w) })
			i := next()
			if panicked {
				if os.Getenv("C40_DEBUG") != "" {
					kind.run(newWorld(rng.Fork(), n))
				}
				st.Fail("snapshot:"+kind.name+":panic", "snapshot function panicked on a populated live state", map[string]interface{}{"kind": kind.name, "n": n, "panic": fmt.Sprint(val)})
				r = snapResult{Kind: kind.name, Nil: true}
			}
			var sites []string
			for _, s := range r.SharedSites {
				if !benignSharedSlices[s] {
					sites = append(sites, s)
				}
			}
			r.SharedSites = sites
			var unknown []string
			for _, s := range r.SharedSites {
				if !knownAliasSites[kind.name][s] {
					unknown = append(unknown, s)
				}
			}
			sh.Add(fmt.Sprintf("CSnap %d %d %s %d %d %s %s", i, kind.code, lib.CoqBool(r.Nil), r.Idents, len(unknown), lib.CoqBool(r.Changed && (len(unknown) > 0 || len(r.SharedSites) == 0)), lib.CoqBool(r.LiveChanged)))
			st.LogCase(run.Out, i, map[string]interface{}{"op": "snapshot", "kind": kind.name, "n": n, "nil": r.Nil, "idents": r.Idents, "live_idents": r.LiveIdents,
				"shared": trunc(r.Shared, 12), "shared_sites": r.SharedSites, "changed": r.Changed, "live_changed": r.LiveChanged, "perturbed": r.Perturbed, "diff": r.Diff})
			st.Count(fmt.Sprintf("snap:%s:%d:%d:%v", kind.name, n, r.Idents, r.SharedSites), !r.Nil && r.Idents > 0 && r.Perturbed > 0, "snapshot:"+kind.name)
			if r.Nil && !panicked {
				st.Fail("snapshot:"+kind.name+":nil", "Snapshot() returned nil on a populated live state (codec rejected it)", map[string]interface{}{"kind": kind.name, "n": n})
			}
			for _, s := range r.SharedSites {
				what := fmt.Sprintf("%s shares %s with the live state (same address reachable from both); a later change of the live state shows through the snapshot", kind.name, s)
				st.Fail("snapshot-alias:"+kind.name+":"+s, what, map[string]interface{}{"kind": kind.name, "n": n, "paths": trunc(filterPrefix(r.Shared, s+"|"), 4), "snapshot_changed_after_live_mutation": r.Changed})
			}
			if r.Changed && len(r.SharedSites) == 0 {
				st.Fail("snapshot-changed:"+kind.name, "snapshot changed when the live state was mutated although no shared address was found", map[string]interface{}{"kind": kind.name, "n": n, "diff": r.Diff})
			}
			if r.LiveChanged {
				st.Fail("snapshot-writes-live:"+kind.name, "taking the snapshot changed the live state", map[string]interface{}{"kind": kind.name, "n": n, "diff": r.Diff})
			}
			if n == 2 {
				st.Sample(map[string]interface{}{"op": "snapshot", "kind": kind.name, "idents": r.Idents, "live_idents": r.LiveIdents, "shared_sites": r.SharedSites, "perturbed": r.Perturbed})
			}
		}
	}
}

func trunc(xs []string, n int) []string {
	if len(xs) > n {
		return xs[:n]
	}
	return xs
}

func filterPrefix(xs []string, p string) []string {
	var out []string
	for _, x := range xs {
		if strings.HasPrefix(x, p) {
			out = append(out, x)
		}
	}
	return out
}

type snapKind struct {
	name string
	code int
	run  func(w *world) snapResult
}

var snapshotKinds = []snapKind{
	{"dpos.CheckPoint.Snapshot", 1, func(w *world) snapResult {
		cp := w.dposCheckpoint()
		return w.checkSnapshot("dpos.CheckPoint.Snapshot", w.liveDPoS(), func() interface{} { return cp.Snapshot() })
	}},
	{"dpos.Arbiters.Snapshot", 2, func(w *world) snapResult {
		return w.checkSnapshot("dpos.Arbiters.Snapshot", w.liveDPoS(), func() interface{} { return w.arbiters.Snapshot() })
	}},
	{"cr.Checkpoint.Snapshot", 3, func(w *world) snapResult {
		cp := w.crCheckpoint()
		return w.checkSnapshot("cr.Checkpoint.Snapshot", w.liveCR(), func() interface{} { return cp.Snapshot() })
	}},
	{"cr.Committee.Snapshot", 4, func(w *world) snapResult {
		return w.checkSnapshot("cr.Committee.Snapshot", w.liveCR(), func() interface{} { return w.committee.Snapshot() })
	}},
	{"mempool.txPoolCheckpoint.Snapshot", 5, func(w *world) snapResult {
		w.fillPool()
		return w.checkSnapshot("mempool.txPoolCheckpoint.Snapshot", w.livePool(), func() interface{} { return w.pool.Snapshot() })
	}},
}

var _ = reflect.TypeOf
