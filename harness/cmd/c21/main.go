// C21: DPoS state after RollbackTo = state built directly.
//
// Oracle (decisive, all transaction kinds the generator produces): a
// standalone state.Arbiters + state.State (built as test/unit/
// arbitratorsrollback_test.go does) is fed generated blocks; a canonical dump
// of the complete live object (reflection over every field, maps sorted,
// pointers followed; functions, mutexes, histories, parameters and the
// per-height snapshot cache excluded) is taken after every block.  Then the
// instance is rolled back height by height (and, on fresh instances, by
// jumps) and each dump is compared with the dump of the same height from the
// forward pass (= a fresh instance fed the prefix, also checked directly),
// and the rolled-back instance is fed the remaining blocks again.
//
// Correspondence: the projected observables of the modelled transaction kinds
// are emitted as Coq cases for coq/model/C21_Dpos.v.
package main

import (
	"bytes"
	"encoding/hex"
	"fmt"
	"math"
	"reflect"
	"sort"
	"strings"

	"github.com/elastos/Elastos.ELA/common"
	"github.com/elastos/Elastos.ELA/common/config"
	"github.com/elastos/Elastos.ELA/core/checkpoint"
	"github.com/elastos/Elastos.ELA/core/contract"
	"github.com/elastos/Elastos.ELA/core/contract/program"
	"github.com/elastos/Elastos.ELA/core/transaction"
	"github.com/elastos/Elastos.ELA/core/types"
	common2 "github.com/elastos/Elastos.ELA/core/types/common"
	"github.com/elastos/Elastos.ELA/core/types/functions"
	"github.com/elastos/Elastos.ELA/core/types/interfaces"
	"github.com/elastos/Elastos.ELA/core/types/outputpayload"
	"github.com/elastos/Elastos.ELA/core/types/payload"
	"github.com/elastos/Elastos.ELA/crypto"
	"github.com/elastos/Elastos.ELA/dpos/state"

	"verifharness/elaenv"
	"verifharness/lib"
)

// ---------------------------------------------------------------- canonical dump

var skipFields = map[string]bool{
	"History": true, "ChainParams": true, "CRCommittee": true, "CkpManager": true, "mtx": true,
	"Snapshots": true, "SnapshotKeysDesc": true, "LastRenewalDPoSV2Votes": true, "started": true,
}

func dump(out map[string]string, path string, v reflect.Value, depth int) {
	if depth > 12 {
		out[path] = "<deep>"
		return
	}
	switch v.Kind() {
	case reflect.Ptr, reflect.Interface:
		if v.IsNil() {
			out[path] = "nil"
			return
		}
		if v.Kind() == reflect.Interface {
			dump(out, path+"<"+v.Elem().Type().String()+">", v.Elem(), depth+1)
		} else {
			dump(out, path, v.Elem(), depth+1)
		}
	case reflect.Struct:
		t := v.Type()
		if t.NumField() == 0 {
			out[path] = "{}"
		}
		for i := 0; i < t.NumField(); i++ {
			f := t.Field(i)
			if skipFields[f.Name] || f.Type.Kind() == reflect.Func || f.Type.Kind() == reflect.Chan {
				continue
			}
			dump(out, path+"."+f.Name, v.Field(i), depth+1)
		}
	case reflect.Map:
		// a zero amount / empty list stored under a key is the same observable
		// state as the key being absent (lookups default to it): such entries
		// are skipped (set-like maps with struct{} values are not affected)
		n := 0
		for _, k := range v.MapKeys() {
			e := v.MapIndex(k)
			switch e.Kind() {
			case reflect.Int64, reflect.Int, reflect.Uint32, reflect.Uint64:
				if e.IsZero() {
					continue
				}
			case reflect.Slice, reflect.Map:
				if e.Len() == 0 {
					continue
				}
			}
			n++
			dump(out, path+"["+keyString(k)+"]", e, depth+1)
		}
		out[path+"#len"] = fmt.Sprint(n)
	case reflect.Slice, reflect.Array:
		if v.Type().Elem().Kind() == reflect.Uint8 {
			b := make([]byte, v.Len())
			for i := range b {
				b[i] = byte(v.Index(i).Uint())
			}
			out[path] = hex.EncodeToString(b)
			return
		}
		out[path+"#len"] = fmt.Sprint(v.Len())
		for i := 0; i < v.Len(); i++ {
			dump(out, fmt.Sprintf("%s[%d]", path, i), v.Index(i), depth+1)
		}
	case reflect.Bool:
		out[path] = fmt.Sprint(v.Bool())
	case reflect.Int, reflect.Int8, reflect.Int16, reflect.Int32, reflect.Int64:
		out[path] = fmt.Sprint(v.Int())
	case reflect.Uint, reflect.Uint8, reflect.Uint16, reflect.Uint32, reflect.Uint64:
		out[path] = fmt.Sprint(v.Uint())
	case reflect.Float32, reflect.Float64:
		out[path] = fmt.Sprint(v.Float())
	case reflect.String:
		out[path] = v.String()
	case reflect.Func, reflect.Chan, reflect.UnsafePointer:
	default:
		out[path] = "<" + v.Kind().String() + ">"
	}
}

func keyString(k reflect.Value) string {
	m := map[string]string{}
	dump(m, "", k, 0)
	ks := make([]string, 0, len(m))
	for p, v := range m {
		ks = append(ks, p+"="+v)
	}
	sort.Strings(ks)
	return strings.Join(ks, ",")
}

type snap map[string]string

func takeSnap(a *state.Arbiters) snap {
	m := map[string]string{}
	dump(m, "A", reflect.ValueOf(a), 0)
	return m
}

// diff returns the differing paths reduced to field names (indices and keys removed)
func diff(a, b snap) (fields []string, detail []string) {
	set := map[string]bool{}
	add := func(p, x, y string) {
		f := p
		if i := strings.IndexAny(f, "[#"); i >= 0 {
			// keep the struct path up to the first key, and the field name after the last key
			j := strings.LastIndex(p, "]")
			tail := ""
			if j >= 0 && j+1 < len(p) {
				tail = p[j+1:]
				if k := strings.Index(tail, "#"); k >= 0 {
					tail = tail[:k]
				}
			}
			f = f[:i] + tail
		}
		set[f] = true
		if len(detail) < 12 {
			detail = append(detail, fmt.Sprintf("%s: rolled-back=%s direct=%s", p, x, y))
		}
	}
	for p, x := range a {
		if y, ok := b[p]; !ok {
			add(p, x, "<absent>")
		} else if x != y {
			add(p, x, y)
		}
	}
	for p, y := range b {
		if _, ok := a[p]; !ok {
			add(p, "<absent>", y)
		}
	}
	for f := range set {
		fields = append(fields, f)
	}
	sort.Strings(fields)
	sort.Strings(detail)
	return
}

// ---------------------------------------------------------------- instance

type inst struct {
	abt  *state.Arbiters
	best uint32
	utxo map[string]common2.Output
}

type cfg struct {
	Lockup    uint32 `json:"lockup"`
	LihStart  int    `json:"lih_start"` // RevertToPOWStartHeight = start + LihStart (negative: default parameter)
	Penalties bool   `json:"penalties"` // non-zero inactive / emergency / illegal penalties from the first block (mainnet: 0)
}

func newInst(c cfg) *inst {
	in := &inst{utxo: map[string]common2.Output{}}
	params := config.GetDefaultParams()
	params.CRConfiguration.DepositLockupBlocks = c.Lockup
	if c.LihStart >= 0 {
		params.DPoSConfiguration.RevertToPOWStartHeight = params.VoteStartHeight + uint32(c.LihStart)
	}
	if c.Penalties {
		params.CRConfiguration.ChangeCommitteeNewCRHeight = params.VoteStartHeight
		params.DPoSConfiguration.InactivePenalty = 100 * 1e8
		params.DPoSConfiguration.EmergencyInactivePenalty = 500 * 1e8
		params.DPoSConfiguration.IllegalPenalty = 200 * 1e8
	}
	ckp := checkpoint.NewManager(params)
	abt, err := state.NewArbitrators(params, nil, nil, nil, nil, nil, nil, nil, nil, ckp)
	if err != nil {
		panic(err)
	}
	abt.RegisterFunction(func() uint32 { return in.best }, func() *common.Uint256 { return &common.Uint256{} },
		func(h uint32) (*types.Block, error) { return &types.Block{Header: common2.Header{Height: h}}, nil }, nil)
	abt.State = state.NewState(params, nil, nil, nil, func() bool { return false }, nil, nil, nil, nil, nil, nil, nil)
	abt.State.GetTxReference = func(tx interfaces.Transaction) (map[*common2.Input]common2.Output, error) {
		res := map[*common2.Input]common2.Output{}
		for _, i := range tx.Inputs() {
			o, ok := in.utxo[i.ReferKey()]
			if !ok {
				return nil, fmt.Errorf("unknown input")
			}
			res[i] = o
		}
		return res, nil
	}
	in.abt = abt
	return in
}

// processD connects the block and then delivers its special payloads
func (in *inst) processD(b *blockd) {
	in.process(b.real())
	for _, sp := range b.Special {
		pl := sp.payload(b.Height)
		lib.Recover(func() { in.abt.ProcessSpecialTxPayload(pl, b.Height) })
	}
}

func (in *inst) process(b *types.Block) {
	for _, tx := range b.Transactions {
		for i, o := range tx.Outputs() {
			op := common2.NewOutPoint(tx.Hash(), uint16(i))
			in.utxo[op.ReferKey()] = *o
		}
	}
	in.abt.ProcessBlock(b, nil)
	in.best = b.Height
}

// ---------------------------------------------------------------- transactions

var keys [][]byte

func initKeys() {
	for _, s := range []string{
		"023a133480176214f88848c6eaa684a54b316849df2b8570b57f3a917f19bbc77a",
		"030a26f8b4ab0ea219eb461d1e454ce5f0bd0d289a6a64ffc0743dab7bd5be0be9",
		"0288e79636e41edce04d4fa95d8f62fed73a76164f8631ccc42f5425f960e4a0c7",
		"03e281f89d85b3a7de177c240c4961cb5b1f2106f09daa42d15874a38bbeae85dd",
		"0393e823c2087ed30871cbea9fa5121fa932550821e9f3b17acef0e581971efab0",
	} {
		b, _ := common.HexStringToBytes(s)
		keys = append(keys, b)
	}
	for _, s := range config.GetDefaultParams().DPoSConfiguration.OriginArbiters {
		b, err := common.HexStringToBytes(s)
		if err == nil && len(keys) < 8 {
			if _, e := crypto.DecodePoint(b); e == nil {
				keys = append(keys, b)
			}
		}
	}
}

func depositHash(pk []byte) *common.Uint168 {
	p, _ := crypto.DecodePoint(pk)
	ct, _ := contract.CreateDepositContractByPubKey(p)
	return ct.ToProgramHash()
}

var nonce uint32

// every transaction gets a distinct lock time so hashes differ
func mk(ver common2.TransactionVersion, tt common2.TxType, p interfaces.Payload, ins []*common2.Input,
	outs []*common2.Output, progs []*program.Program) interfaces.Transaction {
	nonce++
	return functions.CreateTransaction(ver, tt, 0, p, []*common2.Attribute{}, ins, outs, nonce, progs)
}

// tx descriptors (data; replayed on fresh instances and printed for Coq)
type txd struct {
	Kind   string  `json:"kind"` // register update cancel vote unvote return topup
	P      int     `json:"p"`    // producer index
	Nick   string  `json:"nick,omitempty"`
	Amount int64   `json:"amount,omitempty"`
	Cands  []int   `json:"cands,omitempty"`
	Votes  []int64 `json:"votes,omitempty"`
	Ref    int     `json:"ref,omitempty"` // unvote: index of the vote tx in the trace; return: -
	NickID int     `json:"nick_id,omitempty"`
	RefID  int     `json:"ref_id,omitempty"` // id of the vote / deposit output created (or spent, for unvote)
	Refs   []int   `json:"refs,omitempty"`   // return: ids of the deposit outputs spent
	tx     interfaces.Transaction
}

func (d *txd) coq() string {
	pairs := func() string {
		ps := make([]string, len(d.Cands))
		for i := range d.Cands {
			ps[i] = fmt.Sprintf("(%d, %d)", d.Cands[i], d.Votes[i])
		}
		return lib.CoqList(ps)
	}
	switch d.Kind {
	case "register":
		return fmt.Sprintf("CReg %d %d %d %d", d.P, d.NickID, d.Amount, d.RefID)
	case "update":
		return fmt.Sprintf("CUpd %d %d", d.P, d.NickID)
	case "cancel":
		return fmt.Sprintf("CCancel %d", d.P)
	case "vote":
		return fmt.Sprintf("CVote %d %s", d.RefID, pairs())
	case "unvote":
		return fmt.Sprintf("CUnvote %d %s", d.RefID, pairs())
	case "topup":
		return fmt.Sprintf("CTopup %d %d %d", d.P, d.Amount, d.RefID)
	case "revert-to-pow":
		return "CRevPow"
	case "revert-to-dpos":
		return fmt.Sprintf("CRevDpos %d", d.Amount)
	case "inactive-arbitrators":
		return fmt.Sprintf("CInactive %d", d.P)
	case "activate":
		return fmt.Sprintf("CActivate %d", d.P)
	case "illegal-proposal-evidence":
		return fmt.Sprintf("CIllegal %d", d.P)
	}
	rs := make([]string, len(d.Refs))
	for i, r := range d.Refs {
		rs[i] = fmt.Sprint(r)
	}
	return fmt.Sprintf("CReturn %d %s 0", d.P, lib.CoqList(rs))
}

type blockd struct {
	Height uint32 `json:"height"`
	Txs    []*txd `json:"txs"`
	Time   uint32 `json:"time"`
	// special payloads delivered through Arbiters.ProcessSpecialTxPayload at this
	// height, after the block has been connected (not part of any block)
	Special []*speciald `json:"special,omitempty"`
}

type speciald struct {
	Kind string `json:"kind"` // illegal-blocks
	Tag  byte   `json:"tag"`
	p    interfaces.Payload
}

func (sp *speciald) payload(height uint32) interfaces.Payload {
	if sp.p == nil {
		sp.p = &payload.DPOSIllegalBlocks{CoinType: payload.ELACoin, BlockHeight: height,
			Evidence:        payload.BlockEvidence{Header: []byte{1, sp.Tag}, BlockConfirm: []byte{1}, Signers: [][]byte{}},
			CompareEvidence: payload.BlockEvidence{Header: []byte{2, sp.Tag}, BlockConfirm: []byte{2}, Signers: [][]byte{}}}
	}
	return sp.p
}

// ---------------------------------------------------------------- generator

type gen struct {
	rng           *lib.Rng
	a             *inst
	nick          int
	voteTxs       []*txd           // vote txs whose output is unspent
	deposits      map[int][]string // producer -> refer keys of its deposit outputs
	allTxs        []*txd
	allowConflict bool // cancel a pending producer in the very block that activates it
	conflict      bool
	refIDs        map[string]int // refer key -> output reference id
	nickIDs       map[string]int
	force         [][2]int // scripted block: (kind code, producer) pairs instead of random picks
	scripted      bool
	special       bool // illegal-blocks evidence delivered as a special payload between blocks (Arbiters level)
	cycles        bool // several POW <-> DPOS cycles in one trace (RevertToPOW, RevertToDPOS, resumption, RevertToPOW, ...)
	modeSwitch    bool // RevertToPOW / RevertToDPOS transactions (oracle only, not in the Coq model)
	illegal       bool // illegal-proposal evidence against active producers (oracle only)
	v2            bool // stake / Voting payload (delegate and DPoS v2 votes) / v2 producers (oracle only)
	reInactive    bool // inactivity / illegal evidence for a producer that carries values of an earlier inactivity
	specialMix    bool // two special transactions on one producer in one block, or emergency-inactive on an inactive producer
	inactive      bool // emergency InactiveArbitrators, ActivateProducer, illegal evidence against any producer
	unmodelled    bool
}

func (g *gen) newRef(tx interfaces.Transaction) int {
	op := common2.NewOutPoint(tx.Hash(), 0)
	id := len(g.refIDs)
	g.refIDs[op.ReferKey()] = id
	return id
}

func (g *gen) producerState(i int) (exists bool, st state.ProducerState, p *state.Producer) {
	p = g.a.abt.GetProducer(keys[i])
	if p == nil {
		return false, 0, nil
	}
	return true, p.State(), p
}

func (g *gen) block(height uint32) *blockd {
	b := &blockd{Height: height, Time: 1000 + height*3}
	used := map[int]bool{}
	ntx := int(g.rng.PickI64(0, 1, 1, 2, 2, 3, 4))
	lock := g.a.abt.ChainParams.CRConfiguration.DepositLockupBlocks
	if g.scripted {
		ntx = len(g.force)
	}
	// cycles: switch the consensus mode whenever the state allows it (a pending work height is waited for)
	cycleNow := g.cycles && g.rng.Chance(55) &&
		!(g.a.abt.GetConsensusAlgorithm() == state.POW && g.a.abt.DPOSWorkHeight != 0)
	if cycleNow && ntx == 0 {
		ntx = 1
	}
	for k := 0; k < ntx; k++ {
		i := g.rng.Intn(len(keys))
		kind := g.rng.Intn(9)
		if g.modeSwitch && g.rng.Chance(12) {
			kind = 9
		}
		if g.cycles && k == 0 && cycleNow {
			kind = 9
		}
		if g.illegal && g.rng.Chance(8) {
			kind = 10
		}
		if g.v2 && g.rng.Chance(30) {
			kind = 11 + g.rng.Intn(3)
		}
		if g.inactive && g.rng.Chance(30) {
			kind = []int{10, 14, 14, 15, 15}[g.rng.Intn(5)]
		}
		if g.scripted {
			kind, i = g.force[k][0], g.force[k][1]
		}
		exists, st, p := g.producerState(i)
		switch kind {
		case 0, 1:
			if !exists && !used[i] {
				g.nick++
				d := &txd{Kind: "register", P: i, Nick: fmt.Sprintf("n%d", g.nick), Amount: int64(5000+g.rng.Intn(3)) * 1e8}
				stakeUntil := uint32(0)
				if g.v2 && g.rng.Chance(50) {
					stakeUntil = height + uint32(g.rng.Range(6, 40))
					g.unmodelled = true
				}
				d.tx = mk(0, common2.RegisterProducer, &payload.ProducerInfo{OwnerKey: keys[i], NodePublicKey: keys[i], NickName: d.Nick, StakeUntil: stakeUntil},
					nil, []*common2.Output{{ProgramHash: *depositHash(keys[i]), Value: common.Fixed64(d.Amount)}}, nil)
				op := common2.NewOutPoint(d.tx.Hash(), 0)
				g.deposits[i] = append(g.deposits[i], op.ReferKey())
				d.RefID = g.newRef(d.tx)
				d.NickID = g.nick - 1
				g.nickIDs[d.Nick] = d.NickID
				b.Txs = append(b.Txs, d)
				used[i] = true
			}
		case 2:
			if exists && !used[i] && (st == state.Pending || st == state.Active) {
				g.nick++
				d := &txd{Kind: "update", P: i, Nick: fmt.Sprintf("n%d", g.nick)}
				d.tx = mk(0, common2.UpdateProducer, &payload.ProducerInfo{OwnerKey: keys[i], NodePublicKey: keys[i], NickName: d.Nick}, nil, nil, nil)
				d.NickID = g.nick - 1
				g.nickIDs[d.Nick] = d.NickID
				b.Txs = append(b.Txs, d)
				used[i] = true
			}
		case 3:
			activating := exists && st == state.Pending && height-p.RegisterHeight()+1 >= state.ActivateDuration
			if activating && !g.allowConflict {
				break
			}
			if exists && !used[i] && (st == state.Pending || st == state.Active) {
				if activating {
					g.conflict = true
				}
				d := &txd{Kind: "cancel", P: i}
				d.tx = mk(common2.TxVersion09, common2.CancelProducer, &payload.ProcessProducer{OwnerKey: keys[i]}, nil, nil, nil)
				b.Txs = append(b.Txs, d)
				used[i] = true
			}
		case 4, 5:
			var cands []int
			var votes []int64
			var cv []outputpayload.CandidateVotes
			for j := range keys {
				if e, s, _ := g.producerState(j); e && (s == state.Active || s == state.Pending) && g.rng.Chance(50) {
					v := int64(g.rng.Range(1, 9))
					cands, votes = append(cands, j), append(votes, v)
					cv = append(cv, outputpayload.CandidateVotes{Candidate: keys[j], Votes: common.Fixed64(v)})
				}
			}
			if len(cands) > 0 {
				d := &txd{Kind: "vote", P: -1, Cands: cands, Votes: votes, Amount: 10}
				d.tx = mk(common2.TxVersion09, common2.TransferAsset, &payload.TransferAsset{}, nil, []*common2.Output{{
					Value: 10, ProgramHash: common.Uint168{0x21, byte(nonce), byte(nonce >> 8)}, Type: common2.OTVote,
					Payload: &outputpayload.VoteOutput{Version: outputpayload.VoteProducerAndCRVersion,
						Contents: []outputpayload.VoteContent{{VoteType: outputpayload.Delegate, CandidateVotes: cv}}}}}, nil)
				d.RefID = g.newRef(d.tx)
				b.Txs = append(b.Txs, d)
			}
		case 6:
			if len(g.voteTxs) > 0 {
				j := g.rng.Intn(len(g.voteTxs))
				v := g.voteTxs[j]
				g.voteTxs = append(g.voteTxs[:j], g.voteTxs[j+1:]...)
				ref := -1
				for n, t := range g.allTxs {
					if t == v {
						ref = n
					}
				}
				d := &txd{Kind: "unvote", P: -1, Ref: ref, RefID: v.RefID, Cands: v.Cands, Votes: v.Votes}
				d.tx = mk(common2.TxVersion09, common2.TransferAsset, &payload.TransferAsset{},
					[]*common2.Input{{Previous: *common2.NewOutPoint(v.tx.Hash(), 0)}},
					[]*common2.Output{{Value: 10, ProgramHash: common.Uint168{0x21, 0xee, byte(nonce)}, Payload: &outputpayload.DefaultOutput{}}}, nil)
				b.Txs = append(b.Txs, d)
			}
		case 7:
			if exists && !used[i] && st == state.Canceled && height-p.CancelHeight() >= lock && len(g.deposits[i]) > 0 {
				var ins []*common2.Input
				var refs []int
				for _, rk := range g.deposits[i] {
					ins = append(ins, inputOf(rk, g))
					refs = append(refs, g.refIDs[rk])
				}
				g.deposits[i] = nil
				pk, _ := crypto.DecodePoint(keys[i])
				code, _ := contract.CreateStandardRedeemScript(pk)
				d := &txd{Kind: "return", P: i, Refs: refs}
				d.tx = mk(0, common2.ReturnDepositCoin, &payload.ReturnDepositCoin{}, ins,
					[]*common2.Output{{Value: 1, ProgramHash: common.Uint168{0x21, 0xdd, byte(nonce)}}},
					[]*program.Program{{Code: code}})
				b.Txs = append(b.Txs, d)
				used[i] = true
			}
		case 11: // stake
			voter := keys[g.rng.Intn(3)]
			pk, _ := crypto.DecodePoint(voter)
			code, _ := contract.CreateStandardRedeemScript(pk)
			ct, _ := contract.CreateStakeContractByCode(code)
			d := &txd{Kind: "stake", P: -1, Amount: int64(g.rng.Range(1, 20)) * 1e8}
			d.tx = mk(common2.TxVersion09, common2.ExchangeVotes, &payload.ExchangeVotes{}, nil,
				[]*common2.Output{{Value: common.Fixed64(d.Amount), ProgramHash: *ct.ToProgramHash(), Type: common2.OTStake,
					Payload: &outputpayload.ExchangeVotesOutput{StakeAddress: *ct.ToProgramHash()}}}, nil)
			b.Txs = append(b.Txs, d)
			g.unmodelled = true
		case 12, 13: // Voting payload: delegate (12) or DPoS v2 votes (13)
			vi := g.rng.Intn(3)
			if used[100+vi] {
				break
			}
			pk, _ := crypto.DecodePoint(keys[vi])
			code, _ := contract.CreateStandardRedeemScript(pk)
			var infos []payload.VotesWithLockTime
			for j := range keys {
				e, s2, pp := g.producerState(j)
				if !e || !(s2 == state.Active || s2 == state.Pending) || !g.rng.Chance(50) {
					continue
				}
				if kind == 13 && pp.Info().StakeUntil == 0 {
					continue
				}
				lock := uint32(0)
				if kind == 13 {
					lock = height + uint32(g.rng.Range(2, 9))
				}
				infos = append(infos, payload.VotesWithLockTime{Candidate: keys[j], Votes: common.Fixed64(g.rng.Range(1, 9)), LockTime: lock})
			}
			if len(infos) == 0 {
				break
			}
			vt := outputpayload.Delegate
			name := "voting-delegate"
			if kind == 13 {
				vt, name = outputpayload.DposV2, "voting-dposv2"
			}
			d := &txd{Kind: name, P: vi}
			d.tx = mk(common2.TxVersion09, common2.Voting, &payload.Voting{Contents: []payload.VotesContent{{VoteType: vt, VotesInfo: infos}}},
				nil, nil, []*program.Program{{Code: code}})
			b.Txs = append(b.Txs, d)
			used[100+vi] = true
			g.unmodelled = true
		case 14: // emergency inactive arbitrators
			if exists && (!used[i] || g.allowConflict) && (st == state.Active || (st == state.Inactive && g.allowConflict)) {
				if used[i] || st == state.Inactive {
					g.specialMix = true
				}
				if _, em := g.a.abt.EmergencyInactiveArbiters[hex.EncodeToString(keys[i])]; em || p.InactiveSince() != 0 || p.ActivateRequestHeight() != math.MaxUint32 {
					g.reInactive = true
				}
				d := &txd{Kind: "inactive-arbitrators", P: i}
				d.tx = mk(common2.TxVersion09, common2.InactiveArbitrators, &payload.InactiveArbitrators{Sponsor: keys[(i+1)%len(keys)],
					Arbitrators: [][]byte{keys[i]}, BlockHeight: height - 1}, nil, nil, nil)
				b.Txs = append(b.Txs, d)
				used[i] = true
			}
		case 15: // activate producer
			// the node accepts one activation request per inactive period
			if exists && !used[i] && st == state.Inactive && !(height > p.ActivateRequestHeight() && height-p.ActivateRequestHeight() <= state.ActivateDuration) {
				d := &txd{Kind: "activate", P: i}
				d.tx = mk(common2.TxVersion09, common2.ActivateProducer, &payload.ActivateProducer{NodePublicKey: keys[i]}, nil, nil, nil)
				b.Txs = append(b.Txs, d)
				used[i] = true
			}
		case 10:
			if exists && (!used[i] || (g.allowConflict && g.inactive)) && (st == state.Active || (g.inactive && (st == state.Inactive || st == state.Illegal || st == state.Canceled))) {
				if used[i] {
					g.specialMix = true
				}
				if p.ActivateRequestHeight() != math.MaxUint32 {
					g.reInactive = true
				}
				d := &txd{Kind: "illegal-proposal-evidence", P: i}
				ev := payload.ProposalEvidence{Proposal: payload.DPOSProposal{Sponsor: keys[i], ViewOffset: nonce}, BlockHeader: []byte{1}, BlockHeight: height - 1}
				cmp := payload.ProposalEvidence{Proposal: payload.DPOSProposal{Sponsor: keys[i], ViewOffset: nonce + 1}, BlockHeader: []byte{2}, BlockHeight: height - 1}
				d.tx = mk(common2.TxVersion09, common2.IllegalProposalEvidence, &payload.DPOSIllegalProposals{Evidence: ev, CompareEvidence: cmp}, nil, nil, nil)
				b.Txs = append(b.Txs, d)
				used[i] = true
			}
		case 9:
			if used[-1] {
				break
			}
			if g.a.abt.GetConsensusAlgorithm() == state.DPOS {
				d := &txd{Kind: "revert-to-pow", P: -1}
				d.tx = mk(common2.TxVersion09, common2.RevertToPOW, &payload.RevertToPOW{Type: payload.NoBlock, WorkingHeight: height}, nil, nil, nil)
				b.Txs = append(b.Txs, d)
			} else {
				d := &txd{Kind: "revert-to-dpos", P: -1, Amount: int64(g.rng.Range(1, 4))}
				d.tx = mk(common2.TxVersion09, common2.RevertToDPOS, &payload.RevertToDPOS{WorkHeightInterval: uint32(d.Amount)}, nil, nil, nil)
				b.Txs = append(b.Txs, d)
			}
			used[-1] = true
		case 8:
			if exists && !used[i] && st != state.Returned {
				d := &txd{Kind: "topup", P: i, Amount: int64(g.rng.Range(1, 50)) * 1e8}
				d.tx = mk(common2.TxVersion09, common2.TransferAsset, &payload.TransferAsset{}, nil,
					[]*common2.Output{{ProgramHash: *depositHash(keys[i]), Value: common.Fixed64(d.Amount), Payload: &outputpayload.DefaultOutput{}}}, nil)
				op := common2.NewOutPoint(d.tx.Hash(), 0)
				g.deposits[i] = append(g.deposits[i], op.ReferKey())
				d.RefID = g.newRef(d.tx)
				b.Txs = append(b.Txs, d)
				used[i] = true
			}
		}
	}
	if g.special && g.rng.Chance(25) {
		nonce++
		b.Special = append(b.Special, &speciald{Kind: "illegal-blocks", Tag: byte(nonce)})
		g.unmodelled = true
	}
	for _, d := range b.Txs {
		g.allTxs = append(g.allTxs, d)
		if d.Kind == "vote" {
			g.voteTxs = append(g.voteTxs, d)
		}
	}
	return b
}

var outpoints = map[string]*common2.OutPoint{}

func inputOf(referKey string, g *gen) *common2.Input {
	for _, t := range g.allTxs {
		for i := range t.tx.Outputs() {
			op := common2.NewOutPoint(t.tx.Hash(), uint16(i))
			if op.ReferKey() == referKey {
				return &common2.Input{Previous: *op}
			}
		}
	}
	panic("deposit output not found")
}

func (b *blockd) real() *types.Block {
	blk := &types.Block{Header: common2.Header{Height: b.Height, Timestamp: b.Time}}
	for _, d := range b.Txs {
		blk.Transactions = append(blk.Transactions, d.tx)
	}
	return blk
}

// ---------------------------------------------------------------- projection onto the model's vector

const (
	nNick = 30
	nRef  = 48
)

func project(in *inst, g *gen) []int64 {
	K := len(keys)
	const F = 18
	v := make([]int64, K*F+nNick+2*nRef+9)
	a := in.abt
	b2i := func(b bool) int64 {
		if b {
			return 1
		}
		return 0
	}
	for k, key := range keys {
		hk := hex.EncodeToString(key)
		p := a.GetProducer(key)
		if p != nil {
			o := k * F
			v[o+11] = int64(p.InactiveSince())
			v[o+12] = int64(p.ActivateRequestHeight())
			v[o+13] = int64(p.IllegalHeight())
			v[o+14] = int64(p.Penalty())
			v[o+0] = int64(p.State()) + 1
			v[o+1] = int64(p.RegisterHeight())
			v[o+2] = int64(p.CancelHeight())
			v[o+3] = int64(g.nickIDs[p.Info().NickName]) + 1
			v[o+4] = int64(p.DepositAmount())
			v[o+5] = int64(p.Votes())
			v[o+6] = int64(p.TotalAmount())
		}
		_, x := a.PendingProducers[hk]
		v[k*F+7] = b2i(x)
		_, x = a.ActivityProducers[hk]
		v[k*F+8] = b2i(x)
		_, x = a.CanceledProducers[hk]
		v[k*F+9] = b2i(x)
		_, x = a.PendingCanceledProducers[hk]
		v[k*F+10] = b2i(x)
		_, x = a.InactiveProducers[hk]
		v[k*F+15] = b2i(x)
		_, x = a.IllegalProducers[hk]
		v[k*F+16] = b2i(x)
		_, x = a.EmergencyInactiveArbiters[hk]
		v[k*F+17] = b2i(x)
	}
	for nick := range a.Nicknames {
		v[K*F+g.nickIDs[nick]] = 1
	}
	for rk := range a.Votes {
		v[K*F+nNick+2*g.refIDs[rk]] = 1
	}
	for rk, val := range a.DepositOutputs {
		v[K*F+nNick+2*g.refIDs[rk]+1] = int64(val)
	}
	base := K*F + nNick + 2*nRef
	v[base] = int64(a.LastBlockTimestamp)
	v[base+1] = int64(a.LastIrreversibleHeight)
	v[base+2] = int64(a.DPOSStartHeight)
	v[base+3] = int64(a.ConsensusAlgorithm)
	v[base+4] = int64(a.DPOSWorkHeight)
	v[base+5] = int64(a.RevertToPOWBlockHeight)
	v[base+6] = b2i(a.NoProducers)
	v[base+7] = b2i(a.NoClaimDPOSNode)
	v[base+8] = b2i(a.NeedRevertToDPOSTX)
	return v
}

func vecCoq(x []int64) string {
	s := make([]string, len(x))
	for i, v := range x {
		s[i] = lib.CoqZi(v)
	}
	return lib.CoqList(s)
}

// ---------------------------------------------------------------- signatures

const (
	sigLIH     = "State.tryUpdateLastIrreversibleHeight:undo-keeps-LastIrreversibleHeight"
	sigDeposit = "State.processDeposit:DepositOutputs-written-outside-history"
)

const sigConflict = "State.processTransactions:cancel-tx-in-the-block-that-activates-the-pending-producer"
const sigSpecialMix = "State.processTransactions:two-special-transactions-on-one-producer-in-one-block"
const sigInactiveConst = "State.revertSettingInactiveProducer:undo-writes-constants-for-a-producer-inactive-before"

// classify splits the differing fields into the known classes and a rest.
func classify(fields []string, g *gen) []string {
	conflict := g.conflict
	var sigs, rest []string
	for _, f := range fields {
		switch f {
		case "A.State.StateKeyFrame.LastIrreversibleHeight":
			sigs = append(sigs, sigLIH)
		case "A.State.StateKeyFrame.DepositOutputs":
			sigs = append(sigs, sigDeposit)
		default:
			rest = append(rest, f)
		}
	}
	constOnly := g.reInactive
	for _, f := range rest {
		if !(strings.HasSuffix(f, ".activateRequestHeight") || strings.HasSuffix(f, ".inactiveSince") ||
			f == "A.State.StateKeyFrame.EmergencyInactiveArbiters") {
			constOnly = false
		}
	}
	if len(rest) > 0 {
		if conflict {
			sigs = append(sigs, sigConflict)
		} else if g.specialMix {
			sigs = append(sigs, sigSpecialMix)
		} else if constOnly {
			sigs = append(sigs, sigInactiveConst)
		} else {
			if len(rest) > 6 {
				rest = append(rest[:6], "...")
			}
			sigs = append(sigs, "Arbiters.RollbackTo:state-differs-from-direct-build:"+strings.Join(rest, "+"))
		}
	}
	return sigs
}

// ---------------------------------------------------------------- main

func main() {
	run := lib.ParseArgs()
	elaenv.InitLog(run.Out)
	functions.GetTransactionByTxType = transaction.GetTransaction
	functions.GetTransactionByBytes = transaction.GetTransactionByBytes
	functions.CreateTransaction = transaction.CreateTransaction
	functions.GetTransactionParameters = transaction.GetTransactionparameters
	config.DefaultParams = *config.GetDefaultParams()
	initKeys()
	rng := lib.NewRng(run.Seed).Fork() // Fork: the raw streams of neighbouring seeds are shifted copies of each other
	st := lib.NewStats("C21", "block sequences (10-26 blocks, 0-4 DPoS transactions each: register/update/cancel producer, v1 delegate votes and their cancellation, deposit top-up, deposit return after lock-up) over 8 producers on a standalone Arbiters+State; rollback height by height and by jumps, re-processing after rollback; parameters: lock-up 2-4 blocks, irreversibility bookkeeping on/off. nontrivial = trace in which some rollback changed the dump; distinct by transaction kinds and heights")

	sh := &lib.Shards{Dir: run.Out, Imports: "From ELA Require Import corr.C21_corr.", CaseType: "C21_corr.case",
		Mismatch: "C21_corr.mismatches", Scope: "Z", PerShard: 6}
	// corpus: scripted traces (block index -> forced transactions), run first
	const (
		kReg, kUpd, kCancel, kReturn, kTopup = 0, 2, 3, 7, 8
		kIllegal, kInactive, kActivate       = 10, 14, 15
		kRevert                              = 9
	)
	type script struct {
		kind string
		c    cfg
		n    int
		txs  map[int][][2]int
	}
	// scripted traces: block indices followed by an illegal-blocks special payload
	corpusSpecial := map[string][]int{"corpus:special-illegal-blocks": {5, 9}}
	corpus := []script{
		// fixed: LastIrreversibleHeight not restored (bookkeeping on from the first block)
		{"corpus:lih", cfg{Lockup: 3, LihStart: 0}, 12, map[int][][2]int{0: {{kReg, 0}}}},
		// fixed: DepositOutputs written outside history (top-up in the last blocks)
		{"corpus:topup", cfg{Lockup: 3, LihStart: -1}, 10, map[int][][2]int{0: {{kReg, 0}, {kReg, 1}}, 7: {{kTopup, 0}}, 9: {{kTopup, 1}}}},
		// cancel in the very block that activates the pending producer, then cancel again
		{"corpus:cancel-in-activation-block", cfg{Lockup: 3, LihStart: -1}, 10, map[int][][2]int{0: {{kReg, 2}}, 5: {{kCancel, 2}}, 7: {{kCancel, 2}}}},
		// penalties: inactive, reactivated, then illegal evidence and emergency-inactive in one block (+= / = ori mix)
		{"corpus:penalty-mix", cfg{Lockup: 3, LihStart: -1, Penalties: true}, 22, map[int][][2]int{0: {{kReg, 0}}, 7: {{kInactive, 0}}, 8: {{kActivate, 0}},
			16: {{kIllegal, 0}, {kInactive, 0}}}},
		{"corpus:penalty-mix-reversed", cfg{Lockup: 3, LihStart: -1, Penalties: true}, 22, map[int][][2]int{0: {{kReg, 0}}, 7: {{kInactive, 0}}, 8: {{kActivate, 0}},
			16: {{kInactive, 0}, {kIllegal, 0}}}},
		// emergency-inactive naming a producer that is already inactive
		{"corpus:inactive-twice", cfg{Lockup: 3, LihStart: -1, Penalties: true}, 12, map[int][][2]int{0: {{kReg, 1}}, 7: {{kInactive, 1}}, 9: {{kInactive, 1}}}},
		// a reactivated producer (activateRequestHeight set) becomes inactive again
		{"corpus:inactive-after-reactivation", cfg{Lockup: 3, LihStart: -1, Penalties: true}, 22, map[int][][2]int{0: {{kReg, 2}}, 7: {{kInactive, 2}}, 8: {{kActivate, 2}}, 17: {{kInactive, 2}}}},
		// illegal-blocks evidence delivered as special payloads after blocks 5 and 9 (pending-evidence set of the arbiters)
		{"corpus:special-illegal-blocks", cfg{Lockup: 3, LihStart: -1}, 12, map[int][][2]int{0: {{kReg, 0}}}},
		// two and a half POW <-> DPOS cycles: RevertToPOW, RevertToDPOS, resumption, RevertToPOW, RevertToDPOS, resumption, RevertToPOW
		{"corpus:mode-switch-cycles", cfg{Lockup: 3, LihStart: 0}, 26, map[int][][2]int{0: {{kReg, 0}}, 3: {{kRevert, 0}}, 5: {{kRevert, 0}}, 12: {{kRevert, 0}},
			14: {{kRevert, 0}}, 21: {{kRevert, 0}}}},
		// register, update, cancel, lock-up, return
		{"corpus:lifecycle", cfg{Lockup: 2, LihStart: 2}, 14, map[int][][2]int{0: {{kReg, 3}, {kReg, 4}}, 2: {{kUpd, 3}}, 7: {{kCancel, 3}}, 8: {{kTopup, 4}}, 10: {{kReturn, 3}}, 12: {{kCancel, 4}}}},
	}
	ntraces := run.N(40, 1500) + len(corpus)
	for t := 0; t < ntraces; t++ {
		c := cfg{Lockup: uint32(rng.Range(2, 4)), LihStart: -1}
		if rng.Chance(40) {
			c.LihStart = rng.Range(0, 8)
		}
		c.Penalties = rng.Chance(35)
		cycles := rng.Chance(15)
		if cycles {
			c.Penalties = false
			if c.LihStart < 0 {
				c.LihStart = rng.Range(0, 8)
			}
		}
		n := rng.Range(10, 26)
		if cycles {
			n = rng.Range(20, 26)
		}
		var sc *script
		if t < len(corpus) {
			sc = &corpus[t]
			c, n = sc.c, sc.n
		}
		a := newInst(c)
		g := &gen{rng: rng, a: a, deposits: map[int][]string{}, allowConflict: rng.Chance(15) || sc != nil, refIDs: map[string]int{}, nickIDs: map[string]int{},
			scripted: sc != nil, cycles: sc == nil && cycles, special: sc == nil && !cycles && rng.Chance(20), modeSwitch: sc == nil && !cycles && c.LihStart >= 0 && rng.Chance(50),
			illegal: sc == nil && !cycles && rng.Chance(25), v2: sc == nil && !cycles && rng.Chance(25), inactive: c.Penalties}
		start := a.abt.ChainParams.VoteStartHeight
		var blocks []*blockd
		snaps := []snap{takeSnap(a.abt)} // snaps[i] = after i blocks
		var obs, rbs []string
		for i := 0; i < n; i++ {
			if sc != nil {
				g.force = sc.txs[i]
			}
			b := g.block(start + uint32(i))
			if sc != nil {
				for _, x := range corpusSpecial[sc.kind] {
					if x == i {
						nonce++
						b.Special = append(b.Special, &speciald{Kind: "illegal-blocks", Tag: byte(nonce)})
						g.unmodelled = true
					}
				}
			}
			blocks = append(blocks, b)
			a.processD(b)
			snaps = append(snaps, takeSnap(a.abt))
			if len(g.refIDs) <= nRef && g.nick <= nNick {
				obs = append(obs, vecCoq(project(a, g)))
			}
		}
		modelled := len(g.refIDs) <= nRef && g.nick <= nNick && !g.conflict && !g.unmodelled && !g.reInactive && !g.specialMix
		input := func(extra map[string]interface{}) map[string]interface{} {
			m := map[string]interface{}{"config": c, "start": start, "blocks": blocks}
			for k, v := range extra {
				m[k] = v
			}
			return m
		}
		changed := false
		failed := map[string]bool{}
		report1 := func(sig string, what string, extra map[string]interface{}) {
			if !failed[sig] {
				failed[sig] = true
				st.Fail(sig, what, input(extra))
			}
		}
		report := func(sigs []string, what string, extra map[string]interface{}) {
			for _, sig := range sigs {
				report1(sig, what, extra)
			}
		}
		// (1) a fresh instance fed the prefix gives the same dump as the forward pass
		{
			k := rng.Range(1, n)
			f := newInst(c)
			for i := 0; i < k; i++ {
				f.processD(blocks[i])
			}
			if fields, det := diff(takeSnap(f.abt), snaps[k]); len(fields) > 0 {
				report1("harness:direct-build-not-deterministic:"+strings.Join(fields, "+"), "two direct builds of the same prefix differ",
					map[string]interface{}{"prefix": k, "detail": det})
			}
		}
		// (2) roll back height by height
		depth := 8
		if g.cycles || g.scripted || g.special {
			depth = n // rollbacks to every height, across every mode switch
		}
		for k := n - 1; k >= 0 && k >= n-depth; k-- {
			panicked, pv := lib.Recover(func() { a.abt.RollbackTo(start + uint32(k) - 1) })
			a.best = start + uint32(k) - 1
			if panicked {
				report1("Arbiters.RollbackTo:panic", fmt.Sprint(pv), map[string]interface{}{"rollback_to_blocks": k})
				break
			}
			now := takeSnap(a.abt)
			if modelled {
				rbs = append(rbs, fmt.Sprintf("(%d, %s)", start+uint32(k)-1, vecCoq(project(a, g))))
			}
			if f, _ := diff(now, snaps[k+1]); len(f) > 0 {
				changed = true
			}
			if fields, det := diff(now, snaps[k]); len(fields) > 0 {
				report(classify(fields, g), fmt.Sprintf("after RollbackTo(%d) (one height at a time) the state differs from the state built from the first %d blocks in: %s",
					start+uint32(k)-1, k, strings.Join(fields, ", ")), map[string]interface{}{"rollback_to_blocks": k, "detail": det})
			}
		}
		// (3) jump on a fresh instance, then feed the rest again
		for rep := 0; rep < 2; rep++ {
			k := rng.Range(maxI(0, n-12), n-1)
			if g.cycles || g.scripted || g.special {
				k = rng.Range(0, n-1)
			}
			f := newInst(c)
			for i := 0; i < n; i++ {
				f.processD(blocks[i])
			}
			f.abt.RollbackTo(start + uint32(k) - 1)
			f.best = start + uint32(k) - 1
			if fields, det := diff(takeSnap(f.abt), snaps[k]); len(fields) > 0 {
				report(classify(fields, g), fmt.Sprintf("after RollbackTo(%d) from height %d the state differs from the state built from the first %d blocks in: %s",
					start+uint32(k)-1, start+uint32(n)-1, k, strings.Join(fields, ", ")), map[string]interface{}{"rollback_to_blocks": k, "detail": det})
				continue
			}
			for i := k; i < n; i++ {
				f.processD(blocks[i])
			}
			if fields, det := diff(takeSnap(f.abt), snaps[n]); len(fields) > 0 {
				report(classify(fields, g), fmt.Sprintf("rollback to %d blocks and re-processing the rest differs from the straight run in: %s",
					k, strings.Join(fields, ", ")), map[string]interface{}{"rollback_to_blocks": k, "detail": det})
			}
		}
		kinds := map[string]bool{}
		for _, b := range blocks {
			for _, d := range b.Txs {
				kinds[d.Kind] = true
				st.Hist["tx:"+d.Kind]++
			}
		}
		var key bytes.Buffer
		for _, b := range blocks {
			for _, d := range b.Txs {
				fmt.Fprintf(&key, "%d:%s:%d;", b.Height-start, d.Kind, d.P)
			}
		}
		kindName := fmt.Sprintf("trace:lih=%v", c.LihStart >= 0)
		if sc != nil {
			kindName = sc.kind
		}
		st.Count(key.String(), changed, kindName)
		if modelled && st.Hist["modelled-trace"] < run.N(60, 240) {
			bl := make([]string, len(blocks))
			for i, b := range blocks {
				txs := make([]string, len(b.Txs))
				for j, d := range b.Txs {
					txs[j] = d.coq()
				}
				bl[i] = fmt.Sprintf("CBlock %d %d %s", b.Height, b.Time, lib.CoqList(txs))
			}
			p := a.abt.ChainParams
			illegalPenalty := int64(0)
			if start >= p.CRConfiguration.ChangeCommitteeNewCRHeight {
				illegalPenalty = int64(p.DPoSConfiguration.IllegalPenalty)
			}
			sh.Add(fmt.Sprintf("Trace %d %d %d %d %d %d %d 720 %d %d\n    %s\n    %s\n    %s", t+1, len(keys), nNick, nRef,
				p.CRConfiguration.DepositLockupBlocks, p.DPoSConfiguration.RevertToPOWStartHeight, int64(p.MinTransactionFee),
				int64(p.DPoSConfiguration.EmergencyInactivePenalty), illegalPenalty,
				lib.CoqList(bl), lib.CoqList(obs), lib.CoqList(rbs)))
			st.Hist["modelled-trace"]++
		}
		st.LogCase(run.Out, t+1, input(nil))
		if t < 2 {
			st.Sample(map[string]interface{}{"blocks": n, "kinds": len(kinds), "config": c})
		}
	}
	st.Traces = st.Evals
	sh.Flush()
	st.Write(run.Out)
}

func maxI(a, b int) int {
	if a > b {
		return a
	}
	return b
}
