// C25 correspondence + oracle: blockchain.ConfirmSanityCheck and
// ConfirmContextCheck on a real state.Arbiters value holding a controlled
// arbiter set (real keys, real signatures), against coq/model/C25_Confirm.v.
// The oracle recomputes, from how each vote was constructed, whether more than
// two thirds (rounded down) of the current arbiters, counted once each, cast a
// valid accepting vote for exactly the confirmed proposal.
package main

import (
	"crypto/sha256"
	"fmt"
	"strings"
	"time"

	"github.com/elastos/Elastos.ELA/blockchain"
	"github.com/elastos/Elastos.ELA/common"
	"github.com/elastos/Elastos.ELA/common/config"
	"github.com/elastos/Elastos.ELA/core/types"
	"github.com/elastos/Elastos.ELA/core/types/payload"
	crstate "github.com/elastos/Elastos.ELA/cr/state"
	"github.com/elastos/Elastos.ELA/crypto"
	dlog "github.com/elastos/Elastos.ELA/dpos/log"
	"github.com/elastos/Elastos.ELA/dpos/manager"
	"github.com/elastos/Elastos.ELA/dpos/state"

	"verifharness/elaenv"
	"verifharness/lib"
)

type key struct {
	pri []byte
	pub []byte
}

var pool []key

func mkKey(i int) key {
	h := sha256.Sum256([]byte(fmt.Sprintf("c25-key-%d", i)))
	h[0] &= 0x7f
	pk, err := crypto.NewPubKey(h[:]).EncodePoint(true)
	if err != nil {
		panic(err)
	}
	return key{h[:], pk}
}

// injective registries: distinct byte strings <-> distinct small numbers
type registry struct {
	ids map[string]int
}

func (r *registry) id(b []byte) int {
	if r.ids == nil {
		r.ids = map[string]int{}
	}
	if v, ok := r.ids[string(b)]; ok {
		return v
	}
	v := len(r.ids) + 1
	r.ids[string(b)] = v
	return v
}

var keyReg, hashReg, sigReg registry

// gvote is a vote together with how it was built (ground truth for the oracle)
type gvote struct {
	v        payload.DPOSProposalVote
	sigValid bool // signed by Signer's own key over exactly (ProposalHash, Signer, Accept), untouched
	kind     string
}

func signVote(k key, v *payload.DPOSProposalVote) {
	s, err := crypto.Sign(k.pri, v.Data())
	if err != nil {
		panic(err)
	}
	v.Sign = s
}

func flip(sig []byte) []byte {
	out := append([]byte{}, sig...)
	out[len(out)/2] ^= 0x55
	return out
}

var pollutions = []string{"dup", "dup-resigned", "reject", "foreign", "abnormal", "wronghash", "badsig", "foreignkeysig", "emptysig", "badkey", "reject-dup", "accept-flipped"}

type arb struct {
	k      key
	normal bool
}

// buildArbiters returns a real Arbiters value: current arbiters `as`, plus a
// producer registry (as on a real chain) that is larger than the arbiter set:
// every arbiter, the registered-but-not-elected candidates and next-round CR nodes.
func buildArbiters(as []arb, params *config.Configuration, candidates, nextCR []key) *state.Arbiters {
	st := &state.State{StateKeyFrame: state.NewStateKeyFrame(), ChainParams: params}
	for _, a := range as {
		st.NodeOwnerKeys[common.BytesToHexString(a.k.pub)] = common.BytesToHexString(a.k.pub)
	}
	for _, k := range candidates {
		st.NodeOwnerKeys[common.BytesToHexString(k.pub)] = common.BytesToHexString(k.pub)
	}
	for _, k := range nextCR {
		st.NextCRNodeOwnerKeys[common.BytesToHexString(k.pub)] = common.BytesToHexString(k.pub)
	}
	a := buildArbitersOnly(as, params)
	a.State = st
	return a
}

func buildArbitersOnly(as []arb, params *config.Configuration) *state.Arbiters {
	var ms []state.ArbiterMember
	for _, a := range as {
		var m state.ArbiterMember
		var err error
		if a.normal {
			m, err = state.NewOriginArbiter(a.k.pub)
		} else {
			m, err = state.NewCRCArbiter(a.k.pub, a.k.pub, &crstate.CRMember{}, false)
		}
		if err != nil {
			panic(err)
		}
		ms = append(ms, m)
	}
	return &state.Arbiters{ChainParams: params, CurrentArbitrators: ms}
}

func main() {
	run := lib.ParseArgs()
	elaenv.InitLog(run.Out)
	dlog.Init(run.Out, 255, 0, 0)
	rng := lib.NewRng(run.Seed)
	st := lib.NewStats("C25", "arbiter sets of 0..36 members inside a larger producer registry (registered-but-not-elected candidates, next-round CR nodes) (real secp256r1 keys; abnormal CRC members and a duplicated member occasionally) x confirmations whose number of distinct good signers is majority-1 .. majority+2 or all, polluted with duplicates, re-signed duplicates, reject votes, foreign signers, abnormal-arbiter signers, wrong proposal hash, corrupted / foreign-key / empty signatures, undecodable signer keys; sponsors: arbiter / foreign / abnormal / bad proposal signature; vote streams delivered to the real ProposalDispatcher through the on-duty and normal handlers under both message commands (good accepts one short of the quorum, then reject-under-accept-command, accept-under-reject-command, re-signed duplicates, foreign/abnormal signers, wrong hash, bad signatures, genuine rejects up to the rejecting minority, parked votes). nontrivial = at least majority-1 distinct good signers (accept path or quorum boundary); distinct by (n, composition, verdicts)")
	sh := &lib.Shards{Dir: run.Out, Imports: "From ELA Require Import model.C25_Confirm model.C25_Dispatch corr.C25_corr.", CaseType: "C25_corr.case",
		Mismatch: "C25_corr.mismatches", Scope: "Z", PerShard: 150}
	id := 0
	next := func() int { id++; return id }
	for i := 0; i < 60; i++ {
		pool = append(pool, mkKey(i))
	}
	params := *config.GetDefaultParams()
	fallback := params.DPoSConfiguration.NormalArbitratorsCount + len(params.DPoSConfiguration.CRCArbiters)

	// ------------------------------------------------------------ majority threshold
	one, _ := state.NewOriginArbiter(pool[0].pub)
	doMaj := func(n int) {
		ms := make([]state.ArbiterMember, n)
		for i := range ms {
			ms[i] = one
		}
		a := &state.Arbiters{ChainParams: &params, CurrentArbitrators: ms}
		out := a.GetArbitersMajorityCount()
		if n == 0 {
			return // falls back to the configured total; covered through CConfirm with n = 0
		}
		i := next()
		sh.Add(fmt.Sprintf("CMajority %d %d %d", i, n, out))
		st.LogCase(run.Out, i, map[string]interface{}{"op": "GetArbitersMajorityCount", "n": n, "out": out})
		st.Count(fmt.Sprintf("maj:%d", n), n >= 3, "majority")
		if out != 2*n/3 {
			st.Fail("GetArbitersMajorityCount:floor", "majority count differs from floor(2n/3)", map[string]interface{}{"n": n, "out": out})
		}
		for _, num := range []int{out - 1, out, out + 1} {
			if a.HasArbitersMajorityCount(num) != (3*num > 2*n) {
				st.Fail("HasArbitersMajorityCount:strict", "HasArbitersMajorityCount(num) is not num > 2n/3", map[string]interface{}{"n": n, "num": num})
			}
		}
	}
	for n := 1; n <= 120; n++ {
		doMaj(n)
	}
	for i := 0; i < run.N(80, 3000); i++ {
		doMaj(rng.Range(121, 65535))
	}
	doMaj(65535)

	// ------------------------------------------------------------ confirmations
	type result struct {
		accepted bool
		good     map[string]bool
	}
	doConfirm := func(as []arb, kindHint string, mode string) result {
		// mode: "random" | "clean" | a single defect added to an otherwise clean confirmation
		clean := mode != "random"
		n := len(as)
		isNormalArb := map[string]bool{}
		inSet := map[string]bool{}
		for _, a := range as {
			inSet[string(a.k.pub)] = true
			if a.normal {
				isNormalArb[string(a.k.pub)] = true
			}
		}
		var foreign []key
		for _, k := range pool {
			if !inSet[string(k.pub)] {
				foreign = append(foreign, k)
			}
		}
		// half of the non-arbiters are registered producers that were not elected,
		// a few are next-round CR nodes, the rest are unknown to the node
		nc := len(foreign) / 2
		candidates, nextCR := foreign[:nc], foreign[nc:nc+3]
		arbs := buildArbiters(as, &params, candidates, nextCR)
		blockchain.DefaultLedger = &blockchain.Ledger{Arbitrators: arbs}
		fclass := []string{"registered-candidate", "next-cr-node", "stranger", "any"}[rng.Intn(4)]
		fpool := map[string][]key{"registered-candidate": candidates, "next-cr-node": nextCR, "stranger": foreign[nc+3:], "any": foreign}[fclass]
		fnext := rng.Intn(len(fpool))
		var normals, abnormals []key
		for _, a := range as {
			if a.normal {
				normals = append(normals, a.k)
			} else {
				abnormals = append(abnormals, a.k)
			}
		}
		// proposal
		var prop payload.DPOSProposal
		sponsorKind := "arbiter"
		sp := pool[59]
		switch {
		case mode == "sponsor-foreign":
			sp, sponsorKind = foreign[rng.Intn(len(foreign))], "foreign"
		case mode == "sponsor-abnormal" && len(abnormals) > 0:
			sp, sponsorKind = abnormals[rng.Intn(len(abnormals))], "abnormal"
		case len(normals) > 0 && (clean || rng.Chance(85)):
			sp = normals[rng.Intn(len(normals))]
		case len(abnormals) > 0 && rng.Chance(50):
			sp, sponsorKind = abnormals[rng.Intn(len(abnormals))], "abnormal"
		default:
			sp, sponsorKind = foreign[rng.Intn(len(foreign))], "foreign"
		}
		prop.Sponsor = sp.pub
		copy(prop.BlockHash[:], rng.Bytes(32))
		prop.ViewOffset = uint32(rng.Intn(5))
		var err error
		prop.Sign, err = crypto.Sign(sp.pri, prop.Data())
		if err != nil {
			panic(err)
		}
		propSigValid := true
		if mode == "prop-badsig" {
			prop.Sign, propSigValid, sponsorKind = flip(prop.Sign), false, sponsorKind+"+badsig"
		} else if clean {
		} else if rng.Chance(6) {
			prop.Sign, propSigValid, sponsorKind = flip(prop.Sign), false, sponsorKind+"+badsig"
		} else if rng.Chance(3) {
			other := pool[(rng.Intn(58)+1)%59]
			if string(other.pub) != string(sp.pub) {
				prop.Sign, _ = crypto.Sign(other.pri, prop.Data())
				propSigValid, sponsorKind = false, sponsorKind+"+foreignsig"
			}
		}
		ph := prop.Hash()
		var otherHash common.Uint256
		copy(otherHash[:], rng.Bytes(32))

		mk := func(k key, h common.Uint256, accept bool) payload.DPOSProposalVote {
			v := payload.DPOSProposalVote{ProposalHash: h, Signer: k.pub, Accept: accept}
			signVote(k, &v)
			return v
		}
		// good votes by d distinct normal arbiters
		maj := 2 * n / 3
		targets := []int{maj - 1, maj, maj + 1, maj + 2, len(normals), maj + 1, maj + 1}
		d := targets[rng.Intn(len(targets))]
		if clean {
			d = []int{maj + 1, maj + 1, maj + 2, len(normals)}[rng.Intn(4)]
		}
		if mode == "exact-majority" || mode == "dupfill" {
			d = maj
		}
		fill := strings.HasPrefix(mode, "fill-") // too few good votes, topped up with defective votes by other arbiters
		if fill {
			d = maj - rng.Intn(2)
		}
		if d < 0 {
			d = 0
		}
		if d > len(normals) {
			d = len(normals)
		}
		perm := make([]int, len(normals))
		for i := range perm {
			perm[i] = i
		}
		for i := len(perm) - 1; i > 0; i-- {
			j := rng.Intn(i + 1)
			perm[i], perm[j] = perm[j], perm[i]
		}
		var votes []gvote
		for i := 0; i < d; i++ {
			votes = append(votes, gvote{mk(normals[perm[i]], ph, true), true, "good"})
		}
		// pollution
		kinds := []string{}
		pollute := rng.Intn(4) // 0: none, else up to that many kinds
		if clean {
			pollute = 0
			if rng.Chance(30) || mode == "dupfill" { // harmless pollution: exact duplicates / re-signed duplicates of good votes
				pollute = -1
			}
		}
		single := ""
		if strings.HasPrefix(mode, "one-") {
			single, pollute = mode[4:], 1
		}
		if fill {
			single, pollute = mode[5:], 1
		}
		fillNext := d
		if pollute == -1 && len(votes) > 0 {
			for c := 0; c < 1+rng.Intn(3); c++ {
				g := votes[rng.Intn(len(votes))]
				if rng.Bool() {
					var sk key
					for _, k := range normals {
						if string(k.pub) == string(g.v.Signer) {
							sk = k
						}
					}
					g = gvote{mk(sk, ph, true), true, "dup-resigned"}
				}
				votes = append(votes, g)
			}
			kinds = append(kinds, "dup-of-good")
		}
		for p := 0; p < pollute; p++ {
			kind := pollutions[rng.Intn(len(pollutions))]
			cnt := 1 + rng.Intn(3)
			if single != "" {
				kind, cnt = single, 1
			}
			if fill {
				cnt = maj + 1 - d + rng.Intn(2)
			}
			for c := 0; c < cnt; c++ {
				var g gvote
				pick := func() key {
					if len(normals) == 0 {
						return foreign[0]
					}
					if fill && fillNext < len(normals) {
						fillNext++
						return normals[perm[fillNext-1]]
					}
					if d > 0 && rng.Chance(60) {
						return normals[perm[rng.Intn(d)]] // one that already voted
					}
					return normals[rng.Intn(len(normals))]
				}
				switch kind {
				case "dup":
					if len(votes) == 0 {
						continue
					}
					g = votes[rng.Intn(len(votes))]
					g.kind = "dup"
				case "dup-resigned":
					g = gvote{mk(pick(), ph, true), true, kind}
				case "reject", "reject-dup":
					g = gvote{mk(pick(), ph, false), true, kind}
				case "foreign":
					g = gvote{mk(fpool[fnext%len(fpool)], ph, true), true, kind + ":" + fclass}
					fnext++
				case "abnormal":
					if len(abnormals) == 0 {
						continue
					}
					g = gvote{mk(abnormals[rng.Intn(len(abnormals))], ph, true), true, kind}
				case "wronghash":
					g = gvote{mk(pick(), otherHash, true), true, kind}
				case "badsig":
					v := mk(pick(), ph, true)
					v.Sign = flip(v.Sign)
					g = gvote{v, false, kind}
				case "foreignkeysig": // names an arbiter, signed by somebody else
					v := payload.DPOSProposalVote{ProposalHash: ph, Signer: pick().pub, Accept: true}
					signVote(foreign[rng.Intn(len(foreign))], &v)
					g = gvote{v, false, kind}
				case "emptysig":
					v := mk(pick(), ph, true)
					v.Sign = nil
					g = gvote{v, false, kind}
				case "badkey": // signer bytes that are not a curve point
					v := payload.DPOSProposalVote{ProposalHash: ph, Signer: append([]byte{2}, rng.Bytes(31)...), Accept: true}
					v.Sign = rng.Bytes(64)
					g = gvote{v, false, kind}
				case "accept-flipped": // a valid reject vote whose Accept flag was flipped afterwards
					v := mk(pick(), ph, false)
					v.Accept = true
					g = gvote{v, false, kind}
				}
				votes = append(votes, g)
			}
			kinds = append(kinds, kind)
		}
		for i := len(votes) - 1; i > 0; i-- {
			j := rng.Intn(i + 1)
			votes[i], votes[j] = votes[j], votes[i]
		}
		conf := &payload.Confirm{Proposal: prop}
		for _, g := range votes {
			conf.Votes = append(conf.Votes, g.v)
		}

		// ---- the implementation
		var sOK, cOK bool
		p, pv := lib.Recover(func() {
			sOK = blockchain.ConfirmSanityCheck(conf) == nil
			cOK = blockchain.ConfirmContextCheck(conf) == nil
		})
		if p {
			st.Fail("ConfirmCheck:panic", fmt.Sprint(pv), map[string]interface{}{"n": n, "kinds": kinds})
		}
		accepted := sOK && cOK

		// ---- ground truth
		good := map[string]bool{} // distinct normal arbiters with a good vote
		allGood := true
		var badKinds []string
		for _, g := range votes {
			// "current arbiter" in the property statement = any member of the set, normal or not
			ok := g.v.Accept && g.v.ProposalHash == ph && g.sigValid && inSet[string(g.v.Signer)]
			if ok {
				good[string(g.v.Signer)] = true
			} else {
				allGood = false
				badKinds = append(badKinds, g.kind)
			}
		}
		quorum := 3*len(good) > 2*n
		sponsorOK := inSet[string(prop.Sponsor)]

		// ---- Coq case
		var arbTerms, voteTerms, vt []string
		for _, a := range as {
			arbTerms = append(arbTerms, fmt.Sprintf("A %d %s", keyReg.id(a.k.pub), lib.CoqBool(a.normal)))
		}
		hid := hashReg.id(ph[:])
		for _, g := range votes {
			k, h, s := keyReg.id(g.v.Signer), hashReg.id(g.v.ProposalHash[:]), sigReg.id(g.v.Sign)
			voteTerms = append(voteTerms, fmt.Sprintf("V %d %d %s %d", h, k, lib.CoqBool(g.v.Accept), s))
			if g.sigValid {
				vt = append(vt, fmt.Sprintf("(%d, %d, %s, %d)", k, h, lib.CoqBool(g.v.Accept), s))
			}
		}
		pt := "[]"
		if propSigValid {
			pt = fmt.Sprintf("[(%d, %d, %d)]", keyReg.id(prop.Sponsor), hid, sigReg.id(prop.Sign))
		}
		i := next()
		sh.Add(fmt.Sprintf("CConfirm %d %s %d %s %s (C %d %d %d %s) %s %s", i, lib.CoqList(arbTerms), fallback, pt, lib.CoqList(vt),
			keyReg.id(prop.Sponsor), hid, sigReg.id(prop.Sign), lib.CoqList(voteTerms), lib.CoqBool(sOK), lib.CoqBool(cOK)))
		desc := map[string]interface{}{"op": "ConfirmSanityCheck+ConfirmContextCheck", "arbiters": n, "normal_arbiters": len(normals), "majority": maj,
			"votes": len(votes), "distinct_good_signers": len(good), "pollution": kinds, "sponsor": sponsorKind,
			"sanity_ok": sOK, "context_ok": cOK, "set": kindHint, "mode": mode}
		st.LogCase(run.Out, i, desc)
		st.Count(fmt.Sprintf("cf:%d:%d:%d:%d:%v:%s:%v:%v", n, len(normals), len(votes), len(good), kinds, sponsorKind, sOK, cOK),
			len(good) >= maj-1 && n > 0, "confirm:"+map[bool]string{true: "accepted", false: "rejected"}[accepted])
		if id%97 == 0 || (accepted && len(st.Samples) < 2) {
			st.Sample(desc)
		}

		// ---- property oracle (only-if direction: the statement of C25)
		if accepted {
			if !quorum {
				st.Fail("ConfirmCheck:accept-without-quorum", "confirmation accepted although at most two thirds of the arbiters cast a good vote", desc)
			}
			if !allGood { // not a violation by itself (the quorum may not depend on that vote); the model forbids it, so the correspondence reports it
				st.Hist["accepted-with-defective-vote:"+strings.Join(badKinds, ",")]++
			}
			if !sponsorOK {
				st.Fail("ConfirmCheck:accept-foreign-sponsor", "confirmation accepted although the sponsor is not a current arbiter", desc)
			}
			if !propSigValid {
				st.Fail("ConfirmCheck:accept-unsigned-proposal", "confirmation accepted although the proposal signature is invalid", desc)
			}
		}
		return result{accepted, good}
	}

	mkSet := func(n int) []arb {
		var as []arb
		off := rng.Intn(20)
		for i := 0; i < n; i++ {
			as = append(as, arb{pool[(off+i)%58], true})
		}
		if n >= 2 && rng.Chance(25) { // some abnormal CRC members
			for c := 0; c < 1+rng.Intn(3); c++ {
				as[rng.Intn(n)].normal = false
			}
		}
		if n >= 2 && rng.Chance(5) { // the same member listed twice
			as[n-1] = as[0]
		}
		return as
	}
	doSet := func(n int, hint string) {
		as := mkSet(n)
		rs := []result{doConfirm(as, hint, "random"), doConfirm(as, hint, "random"), doConfirm(as, hint, "clean"), doConfirm(as, hint, "clean")}
		// near misses: a clean confirmation with exactly one defect
		defects := []string{"sponsor-foreign", "sponsor-abnormal", "prop-badsig", "exact-majority", "dupfill"}
		for _, k := range pollutions {
			defects = append(defects, "one-"+k)
			if k != "dup" && k != "dup-resigned" && k != "reject-dup" {
				defects = append(defects, "fill-"+k)
			}
		}
		for c := 0; c < 3; c++ {
			rs = append(rs, doConfirm(as, hint, defects[rng.Intn(len(defects))]))
		}
		for a := 0; a < len(rs); a++ {
			for b := a + 1; b < len(rs); b++ {
				if rs[a].accepted && rs[b].accepted { // quorum intersection on what the implementation accepted
					common := 0
					for k := range rs[a].good {
						if rs[b].good[k] {
							common++
						}
					}
					st.Hist["accepted-pairs"]++
					if 3*common <= n {
						st.Fail("ConfirmCheck:quorum-intersection", "two accepted confirmations share at most a third of the arbiters", map[string]interface{}{"n": n, "common": common})
					}
				}
			}
		}
	}
	doSet(0, "sizes")
	for n := 1; n <= 36; n++ {
		doSet(n, "sizes")
	}
	for i := 0; i < run.N(60, 4000); i++ {
		doSet(rng.Range(1, 36), "random")
	}

	// ------------------------------------------------------------ vote collection (ProposalDispatcher)
	// Streams of votes delivered to a real ProposalDispatcher through the real
	// on-duty / normal handlers under either message command.
	poolWaits := 0
	doStream := func(as []arb, kind string) {
		n := len(as)
		var normals, abnormals, foreign []key
		inSet := map[string]bool{}
		for _, a := range as {
			inSet[string(a.k.pub)] = true
			if a.normal {
				normals = append(normals, a.k)
			} else {
				abnormals = append(abnormals, a.k)
			}
		}
		if len(normals) == 0 {
			return
		}
		for _, k := range pool {
			if !inSet[string(k.pub)] {
				foreign = append(foreign, k)
			}
		}
		nc := len(foreign) / 2
		arbs := buildArbiters(as, &params, foreign[:nc], foreign[nc:nc+3])
		blockchain.DefaultLedger = &blockchain.Ledger{Arbitrators: arbs}
		w := manager.NewDispatcherVerif(arbs, &params, as[0].k.pub)
		block := &types.Block{}
		block.Header.Nonce = uint32(rng.U64())
		sp := normals[rng.Intn(len(normals))]
		prop := &payload.DPOSProposal{Sponsor: sp.pub, BlockHash: block.Hash()}
		prop.Sign, _ = crypto.Sign(sp.pri, prop.Data())
		ph := prop.Hash()
		var otherHash common.Uint256
		copy(otherHash[:], rng.Bytes(32))
		maj := arbs.GetArbitersMajorityCount()
		minority := n - maj

		truth := map[string]bool{} // signature bytes -> validly signed by its signer over its own content
		mk := func(k key, h common.Uint256, accept bool) *payload.DPOSProposalVote {
			v := &payload.DPOSProposalVote{ProposalHash: h, Signer: k.pub, Accept: accept}
			signVote(k, v)
			truth[string(v.Sign)] = true
			return v
		}
		perm := make([]int, len(normals))
		for i := range perm {
			perm[i] = i
		}
		for i := len(perm) - 1; i > 0; i-- {
			j := rng.Intn(i + 1)
			perm[i], perm[j] = perm[j], perm[i]
		}
		voter := func(i int) key { return normals[perm[i%len(normals)]] }
		filler := func(kindF string, i int) (*payload.DPOSProposalVote, bool) { // vote, command
			switch kindF {
			case "reject-as-accept": // a genuine reject vote carried by an accept-vote message
				return mk(voter(i), ph, false), true
			case "accept-as-reject":
				return mk(voter(i), ph, true), false
			case "dup-resigned":
				return mk(voter(i), ph, true), true
			case "foreign":
				return mk(foreign[rng.Intn(len(foreign))], ph, true), true
			case "abnormal":
				if len(abnormals) > 0 {
					return mk(abnormals[rng.Intn(len(abnormals))], ph, true), true
				}
				return mk(foreign[0], ph, true), true
			case "wronghash":
				return mk(voter(i), otherHash, true), true
			case "badsig":
				v := mk(voter(i), ph, true)
				v.Sign = flip(v.Sign)
				return v, true
			case "foreignkeysig":
				v := &payload.DPOSProposalVote{ProposalHash: ph, Signer: voter(i).pub, Accept: true}
				signVote(foreign[rng.Intn(len(foreign))], v)
				return v, true
			default: // "reject": genuine reject under the reject command
				return mk(voter(i), ph, false), false
			}
		}
		fillKinds := []string{"reject-as-accept", "accept-as-reject", "dup-resigned", "foreign", "abnormal", "wronghash", "badsig", "foreignkeysig", "reject"}

		type delivery struct {
			v    *payload.DPOSProposalVote
			cmd  bool
			via  string // pend | duty | normal
			what string
		}
		var pre, body []delivery
		// parked votes before the proposal arrives: never enough to finish by themselves
		nPre := 0
		if rng.Chance(40) {
			nPre = rng.Intn(3)
			if nPre > maj {
				nPre = maj
			}
			for i := 0; i < nPre; i++ {
				pre = append(pre, delivery{mk(voter(i), ph, true), true, "pend", "good"})
			}
			if rng.Chance(50) {
				v, _ := filler([]string{"wronghash", "badsig", "foreign"}[rng.Intn(3)], 0)
				pre = append(pre, delivery{v, true, "pend", "parked-defect"})
			}
			if minority >= 2 && rng.Chance(30) {
				pre = append(pre, delivery{mk(voter(nPre), ph, false), false, "pend", "parked-reject"})
			}
		}
		// good accepts up to the majority count (one short of the quorum), then fillers, then maybe the rest
		d := maj
		if kind == "random" {
			d = rng.Intn(maj + 1)
		}
		if d > len(normals) {
			d = len(normals)
		}
		for i := nPre; i < d; i++ {
			body = append(body, delivery{mk(voter(i), ph, true), true, "", "good"})
		}
		fk := kind
		for c := 0; c < 1+rng.Intn(3); c++ {
			if kind == "random" || kind == "mixed" {
				fk = fillKinds[rng.Intn(len(fillKinds))]
			}
			v, cmd := filler(fk, rng.Intn(d+1))
			body = append(body, delivery{v, cmd, "", fk})
			if rng.Chance(25) { // the very same message again
				body = append(body, delivery{v, cmd, "", fk + "-again"})
			}
		}
		if rng.Chance(60) {
			for i := d; i < len(normals) && i < d+2; i++ {
				body = append(body, delivery{mk(voter(i), ph, true), true, "", "good"})
			}
		}
		if kind == "random" {
			for i := len(body) - 1; i > 0; i-- {
				j := rng.Intn(i + 1)
				body[i], body[j] = body[j], body[i]
			}
		}

		// ---- run it on the implementation
		var ops, tr, vt []string
		seen := map[string]bool{}
		term := func(v *payload.DPOSProposalVote) string {
			k, h, sg := keyReg.id(v.Signer), hashReg.id(v.ProposalHash[:]), sigReg.id(v.Sign)
			if truth[string(v.Sign)] && !seen[string(v.Sign)] {
				seen[string(v.Sign)] = true
				vt = append(vt, fmt.Sprintf("(%d, %d, %s, %d)", k, h, lib.CoqBool(v.Accept), sg))
			}
			return fmt.Sprintf("(V %d %d %s %d)", h, k, lib.CoqBool(v.Accept), sg)
		}
		var steps []map[string]interface{}
		checkQuorum := func(what string) {
			acc := w.AcceptVotes()
			good := map[string]bool{}
			for _, v := range acc {
				if v.Accept && v.ProposalHash == ph && truth[string(v.Sign)] && inSet[string(v.Signer)] {
					good[string(v.Signer)] = true
				}
			}
			desc := map[string]interface{}{"arbiters": n, "majority": maj, "collected_accept_votes": len(acc), "distinct_good_accepting_arbiters": len(good), "kind": kind, "after": what, "deliveries": steps}
			if 3*len(good) <= 2*n {
				st.Fail("ProposalDispatcher:quorum-without-two-thirds", "the dispatcher declared the quorum although at most two thirds of the arbiters cast a valid accepting vote for the proposal", desc)
			}
			conf := &payload.Confirm{Proposal: *prop, Votes: acc} // what AppendConfirm assembles
			e1, e2 := blockchain.ConfirmSanityCheck(conf), blockchain.ConfirmContextCheck(conf)
			if e1 != nil || e2 != nil {
				st.Fail("ProposalDispatcher:assembled-confirm-invalid", fmt.Sprintf("the confirm assembled at the quorum does not pass ConfirmSanityCheck/ConfirmContextCheck: %v %v", e1, e2), desc)
			} else if poolWaits < 40 {
				// the real AppendConfirm hands it to the block pool asynchronously
				poolWaits++
				ok := false
				for t := 0; t < 300 && !ok; t++ {
					_, ok = w.Pool.GetConfirm(prop.BlockHash)
					if !ok {
						time.Sleep(10 * time.Millisecond)
					}
				}
				if !ok {
					st.Fail("ProposalDispatcher:confirm-not-pooled", "the dispatcher finished the proposal but no confirm for the block reached the block pool", desc)
				}
			}
		}
		deliver := func(dl delivery) {
			processing := w.D.GetProcessingProposal() != nil
			via := dl.via
			if via == "" {
				via = []string{"duty", "normal"}[rng.Intn(2)]
			}
			if via == "normal" && !processing {
				via = "pend" // what the normal handler does without a processing proposal
			}
			var s, f bool
			switch via {
			case "pend":
				w.D.AddPendingVote(dl.v)
				ops = append(ops, "OPend "+term(dl.v))
			case "duty":
				if dl.cmd {
					s, f = w.OnDutyAccept(dl.v)
				} else {
					s, f = w.OnDutyReject(dl.v)
				}
				ops = append(ops, fmt.Sprintf("ODuty %s %s", term(dl.v), lib.CoqBool(dl.cmd)))
			default:
				if dl.cmd {
					s, f = w.NormalAccept(dl.v)
				} else {
					s, f = w.NormalReject(dl.v)
				}
				ops = append(ops, fmt.Sprintf("ONormal %s %s", term(dl.v), lib.CoqBool(dl.cmd)))
			}
			tr = append(tr, fmt.Sprintf("(%s, %s)", lib.CoqBool(s), lib.CoqBool(f)))
			steps = append(steps, map[string]interface{}{"vote": dl.what, "accept_flag": dl.v.Accept, "command_accept": dl.cmd, "via": via, "succeed": s, "finished": f})
			if f && w.D.GetProcessingProposal() != nil {
				checkQuorum(dl.what)
			}
		}
		panicked, pv := lib.Recover(func() {
			for _, dl := range pre {
				deliver(dl)
			}
			fin := w.Start(block, prop)
			ops = append(ops, fmt.Sprintf("OStart (P %d %d %d)", keyReg.id(prop.Sponsor), hashReg.id(ph[:]), sigReg.id(prop.Sign)))
			tr = append(tr, fmt.Sprintf("(%s, %s)", lib.CoqBool(fin), lib.CoqBool(fin)))
			steps = append(steps, map[string]interface{}{"start": true, "finished": fin})
			for _, dl := range body {
				deliver(dl)
			}
		})
		if panicked {
			st.Fail("ProposalDispatcher:panic", fmt.Sprint(pv), map[string]interface{}{"arbiters": n, "kind": kind, "deliveries": steps})
			return
		}
		var arbTerms, accT, rejT []string
		for _, a := range as {
			arbTerms = append(arbTerms, fmt.Sprintf("A %d %s", keyReg.id(a.k.pub), lib.CoqBool(a.normal)))
		}
		acc, rej := w.AcceptVotes(), w.RejectedVotes()
		for i := range acc {
			accT = append(accT, term(&acc[i])[1:len(term(&acc[i]))-1])
		}
		for i := range rej {
			rejT = append(rejT, term(&rej[i])[1:len(term(&rej[i]))-1])
		}
		processing := w.D.GetProcessingProposal() != nil
		i := next()
		sh.Add(fmt.Sprintf("CDispatch %d %s %d %s %s %s %s %s %s", i, lib.CoqList(arbTerms), fallback, lib.CoqList(vt), lib.CoqList(ops),
			lib.CoqList(tr), lib.CoqList(accT), lib.CoqList(rejT), lib.CoqBool(processing)))
		declared := arbs.HasArbitersMajorityCount(len(acc)) && processing
		desc := map[string]interface{}{"op": "ProposalDispatcher vote stream", "arbiters": n, "majority": maj, "kind": kind, "deliveries": steps, "accept_votes": len(acc), "rejected_votes": len(rej), "processing": processing, "quorum": declared}
		st.LogCase(run.Out, i, desc)
		st.Count(fmt.Sprintf("ds:%d:%s:%v", n, kind, steps), len(acc) >= maj && n > 1, "dispatch:"+kind)
		if declared {
			st.Hist["dispatch-quorum-declared"]++
		}
		if i%53 == 0 {
			st.Sample(desc)
		}
	}
	streamKinds := []string{"reject-as-accept", "accept-as-reject", "dup-resigned", "foreign", "abnormal", "wronghash", "badsig", "foreignkeysig", "reject", "mixed", "random"}
	for n := 1; n <= 36; n++ {
		as := mkSet(n)
		doStream(as, "reject-as-accept")
		doStream(as, streamKinds[rng.Intn(len(streamKinds))])
	}
	for i := 0; i < run.N(80, 4000); i++ {
		doStream(mkSet(rng.Range(1, 36)), streamKinds[rng.Intn(len(streamKinds))])
	}
	st.Traces = st.Evals
	sh.Flush()
	st.Write(run.Out)
}
