// C25 correspondence + oracle: blockchain.ConfirmSanityCheck and
// ConfirmContextCheck on a real state.Arbiters value holding a controlled
// arbiter set (real keys, real signatures), against coq/model/C25_Confirm.v.
// The oracle recomputes, from how each vote was constructed, whether more than
// two thirds (rounded down) of the current arbiters, counted once each, cast a
// valid accepting vote for exactly the confirmed proposal.
package main

import (
	"crypto/sha256"
	"fmt"
	"strings"

	"github.com/elastos/Elastos.ELA/blockchain"
	"github.com/elastos/Elastos.ELA/common"
	"github.com/elastos/Elastos.ELA/common/config"
	"github.com/elastos/Elastos.ELA/core/types/payload"
	crstate "github.com/elastos/Elastos.ELA/cr/state"
	"github.com/elastos/Elastos.ELA/crypto"
	"github.com/elastos/Elastos.ELA/dpos/state"

	"verifharness/elaenv"
	"verifharness/lib"
)

type key struct {
	pri []byte
	pub []byte
}

var pool []key

func mkKey(i int) key {
	h := sha256.Sum256([]byte(fmt.Sprintf("c25-key-%d", i)))
	h[0] &= 0x7f
	pk, err := crypto.NewPubKey(h[:]).EncodePoint(true)
	if err != nil {
		panic(err)
	}
	return key{h[:], pk}
}

// injective registries: distinct byte strings <-> distinct small numbers
type registry struct {
	ids map[string]int
}

func (r *registry) id(b []byte) int {
	if r.ids == nil {
		r.ids = map[string]int{}
	}
	if v, ok := r.ids[string(b)]; ok {
		return v
	}
	v := len(r.ids) + 1
	r.ids[string(b)] = v
	return v
}

var keyReg, hashReg, sigReg registry

// gvote is a vote together with how it was built (ground truth for the oracle)
type gvote struct {
	v        payload.DPOSProposalVote
	sigValid bool // signed by Signer's own key over exactly (ProposalHash, Signer, Accept), untouched
	kind     string
}

func signVote(k key, v *payload.DPOSProposalVote) {
	s, err := crypto.Sign(k.pri, v.Data())
	if err != nil {
		panic(err)
	}
	v.Sign = s
}

func flip(sig []byte) []byte {
	out := append([]byte{}, sig...)
	out[len(out)/2] ^= 0x55
	return out
}

var pollutions = []string{"dup", "dup-resigned", "reject", "foreign", "abnormal", "wronghash", "badsig", "foreignkeysig", "emptysig", "badkey", "reject-dup", "accept-flipped"}

type arb struct {
	k      key
	normal bool
}

// buildArbiters returns a real Arbiters value: current arbiters `as`, plus a
// producer registry (as on a real chain) that is larger than the arbiter set:
// every arbiter, the registered-but-not-elected candidates and next-round CR nodes.
func buildArbiters(as []arb, params *config.Configuration, candidates, nextCR []key) *state.Arbiters {
	st := &state.State{StateKeyFrame: state.NewStateKeyFrame(), ChainParams: params}
	for _, a := range as {
		st.NodeOwnerKeys[common.BytesToHexString(a.k.pub)] = common.BytesToHexString(a.k.pub)
	}
	for _, k := range candidates {
		st.NodeOwnerKeys[common.BytesToHexString(k.pub)] = common.BytesToHexString(k.pub)
	}
	for _, k := range nextCR {
		st.NextCRNodeOwnerKeys[common.BytesToHexString(k.pub)] = common.BytesToHexString(k.pub)
	}
	a := buildArbitersOnly(as, params)
	a.State = st
	return a
}

func buildArbitersOnly(as []arb, params *config.Configuration) *state.Arbiters {
	var ms []state.ArbiterMember
	for _, a := range as {
		var m state.ArbiterMember
		var err error
		if a.normal {
			m, err = state.NewOriginArbiter(a.k.pub)
		} else {
			m, err = state.NewCRCArbiter(a.k.pub, a.k.pub, &crstate.CRMember{}, false)
		}
		if err != nil {
			panic(err)
		}
		ms = append(ms, m)
	}
	return &state.Arbiters{ChainParams: params, CurrentArbitrators: ms}
}

func main() {
	run := lib.ParseArgs()
	elaenv.InitLog(run.Out)
	rng := lib.NewRng(run.Seed)
	st := lib.NewStats("C25", "arbiter sets of 0..36 members inside a larger producer registry (registered-but-not-elected candidates, next-round CR nodes) (real secp256r1 keys; abnormal CRC members and a duplicated member occasionally) x confirmations whose number of distinct good signers is majority-1 .. majority+2 or all, polluted with duplicates, re-signed duplicates, reject votes, foreign signers, abnormal-arbiter signers, wrong proposal hash, corrupted / foreign-key / empty signatures, undecodable signer keys; sponsors: arbiter / foreign / abnormal / bad proposal signature. nontrivial = at least majority-1 distinct good signers (accept path or quorum boundary); distinct by (n, composition, verdicts)")
	sh := &lib.Shards{Dir: run.Out, Imports: "From ELA Require Import model.C25_Confirm corr.C25_corr.", CaseType: "C25_corr.case",
		Mismatch: "C25_corr.mismatches", Scope: "Z", PerShard: 150}
	id := 0
	next := func() int { id++; return id }
	for i := 0; i < 60; i++ {
		pool = append(pool, mkKey(i))
	}
	params := *config.GetDefaultParams()
	fallback := params.DPoSConfiguration.NormalArbitratorsCount + len(params.DPoSConfiguration.CRCArbiters)

	// ------------------------------------------------------------ majority threshold
	one, _ := state.NewOriginArbiter(pool[0].pub)
	doMaj := func(n int) {
		ms := make([]state.ArbiterMember, n)
		for i := range ms {
			ms[i] = one
		}
		a := &state.Arbiters{ChainParams: &params, CurrentArbitrators: ms}
		out := a.GetArbitersMajorityCount()
		if n == 0 {
			return // falls back to the configured total; covered through CConfirm with n = 0
		}
		i := next()
		sh.Add(fmt.Sprintf("CMajority %d %d %d", i, n, out))
		st.LogCase(run.Out, i, map[string]interface{}{"op": "GetArbitersMajorityCount", "n": n, "out": out})
		st.Count(fmt.Sprintf("maj:%d", n), n >= 3, "majority")
		if out != 2*n/3 {
			st.Fail("GetArbitersMajorityCount:floor", "majority count differs from floor(2n/3)", map[string]interface{}{"n": n, "out": out})
		}
		for _, num := range []int{out - 1, out, out + 1} {
			if a.HasArbitersMajorityCount(num) != (3*num > 2*n) {
				st.Fail("HasArbitersMajorityCount:strict", "HasArbitersMajorityCount(num) is not num > 2n/3", map[string]interface{}{"n": n, "num": num})
			}
		}
	}
	for n := 1; n <= 120; n++ {
		doMaj(n)
	}
	for i := 0; i < run.N(80, 3000); i++ {
		doMaj(rng.Range(121, 65535))
	}
	doMaj(65535)

	// ------------------------------------------------------------ confirmations
	type result struct {
		accepted bool
		good     map[string]bool
	}
	doConfirm := func(as []arb, kindHint string, mode string) result {
		// mode: "random" | "clean" | a single defect added to an otherwise clean confirmation
		clean := mode != "random"
		n := len(as)
		isNormalArb := map[string]bool{}
		inSet := map[string]bool{}
		for _, a := range as {
			inSet[string(a.k.pub)] = true
			if a.normal {
				isNormalArb[string(a.k.pub)] = true
			}
		}
		var foreign []key
		for _, k := range pool {
			if !inSet[string(k.pub)] {
				foreign = append(foreign, k)
			}
		}
		// half of the non-arbiters are registered producers that were not elected,
		// a few are next-round CR nodes, the rest are unknown to the node
		nc := len(foreign) / 2
		candidates, nextCR := foreign[:nc], foreign[nc:nc+3]
		arbs := buildArbiters(as, &params, candidates, nextCR)
		blockchain.DefaultLedger = &blockchain.Ledger{Arbitrators: arbs}
		fclass := []string{"registered-candidate", "next-cr-node", "stranger", "any"}[rng.Intn(4)]
		fpool := map[string][]key{"registered-candidate": candidates, "next-cr-node": nextCR, "stranger": foreign[nc+3:], "any": foreign}[fclass]
		fnext := rng.Intn(len(fpool))
		var normals, abnormals []key
		for _, a := range as {
			if a.normal {
				normals = append(normals, a.k)
			} else {
				abnormals = append(abnormals, a.k)
			}
		}
		// proposal
		var prop payload.DPOSProposal
		sponsorKind := "arbiter"
		sp := pool[59]
		switch {
		case mode == "sponsor-foreign":
			sp, sponsorKind = foreign[rng.Intn(len(foreign))], "foreign"
		case mode == "sponsor-abnormal" && len(abnormals) > 0:
			sp, sponsorKind = abnormals[rng.Intn(len(abnormals))], "abnormal"
		case len(normals) > 0 && (clean || rng.Chance(85)):
			sp = normals[rng.Intn(len(normals))]
		case len(abnormals) > 0 && rng.Chance(50):
			sp, sponsorKind = abnormals[rng.Intn(len(abnormals))], "abnormal"
		default:
			sp, sponsorKind = foreign[rng.Intn(len(foreign))], "foreign"
		}
		prop.Sponsor = sp.pub
		copy(prop.BlockHash[:], rng.Bytes(32))
		prop.ViewOffset = uint32(rng.Intn(5))
		var err error
		prop.Sign, err = crypto.Sign(sp.pri, prop.Data())
		if err != nil {
			panic(err)
		}
		propSigValid := true
		if mode == "prop-badsig" {
			prop.Sign, propSigValid, sponsorKind = flip(prop.Sign), false, sponsorKind+"+badsig"
		} else if clean {
		} else if rng.Chance(6) {
			prop.Sign, propSigValid, sponsorKind = flip(prop.Sign), false, sponsorKind+"+badsig"
		} else if rng.Chance(3) {
			other := pool[(rng.Intn(58)+1)%59]
			if string(other.pub) != string(sp.pub) {
				prop.Sign, _ = crypto.Sign(other.pri, prop.Data())
				propSigValid, sponsorKind = false, sponsorKind+"+foreignsig"
			}
		}
		ph := prop.Hash()
		var otherHash common.Uint256
		copy(otherHash[:], rng.Bytes(32))

		mk := func(k key, h common.Uint256, accept bool) payload.DPOSProposalVote {
			v := payload.DPOSProposalVote{ProposalHash: h, Signer: k.pub, Accept: accept}
			signVote(k, &v)
			return v
		}
		// good votes by d distinct normal arbiters
		maj := 2 * n / 3
		targets := []int{maj - 1, maj, maj + 1, maj + 2, len(normals), maj + 1, maj + 1}
		d := targets[rng.Intn(len(targets))]
		if clean {
			d = []int{maj + 1, maj + 1, maj + 2, len(normals)}[rng.Intn(4)]
		}
		if mode == "exact-majority" || mode == "dupfill" {
			d = maj
		}
		fill := strings.HasPrefix(mode, "fill-") // too few good votes, topped up with defective votes by other arbiters
		if fill {
			d = maj - rng.Intn(2)
		}
		if d < 0 {
			d = 0
		}
		if d > len(normals) {
			d = len(normals)
		}
		perm := make([]int, len(normals))
		for i := range perm {
			perm[i] = i
		}
		for i := len(perm) - 1; i > 0; i-- {
			j := rng.Intn(i + 1)
			perm[i], perm[j] = perm[j], perm[i]
		}
		var votes []gvote
		for i := 0; i < d; i++ {
			votes = append(votes, gvote{mk(normals[perm[i]], ph, true), true, "good"})
		}
		// pollution
		kinds := []string{}
		pollute := rng.Intn(4) // 0: none, else up to that many kinds
		if clean {
			pollute = 0
			if rng.Chance(30) || mode == "dupfill" { // harmless pollution: exact duplicates / re-signed duplicates of good votes
				pollute = -1
			}
		}
		single := ""
		if strings.HasPrefix(mode, "one-") {
			single, pollute = mode[4:], 1
		}
		if fill {
			single, pollute = mode[5:], 1
		}
		fillNext := d
		if pollute == -1 && len(votes) > 0 {
			for c := 0; c < 1+rng.Intn(3); c++ {
				g := votes[rng.Intn(len(votes))]
				if rng.Bool() {
					var sk key
					for _, k := range normals {
						if string(k.pub) == string(g.v.Signer) {
							sk = k
						}
					}
					g = gvote{mk(sk, ph, true), true, "dup-resigned"}
				}
				votes = append(votes, g)
			}
			kinds = append(kinds, "dup-of-good")
		}
		for p := 0; p < pollute; p++ {
			kind := pollutions[rng.Intn(len(pollutions))]
			cnt := 1 + rng.Intn(3)
			if single != "" {
				kind, cnt = single, 1
			}
			if fill {
				cnt = maj + 1 - d + rng.Intn(2)
			}
			for c := 0; c < cnt; c++ {
				var g gvote
				pick := func() key {
					if len(normals) == 0 {
						return foreign[0]
					}
					if fill && fillNext < len(normals) {
						fillNext++
						return normals[perm[fillNext-1]]
					}
					if d > 0 && rng.Chance(60) {
						return normals[perm[rng.Intn(d)]] // one that already voted
					}
					return normals[rng.Intn(len(normals))]
				}
				switch kind {
				case "dup":
					if len(votes) == 0 {
						continue
					}
					g = votes[rng.Intn(len(votes))]
					g.kind = "dup"
				case "dup-resigned":
					g = gvote{mk(pick(), ph, true), true, kind}
				case "reject", "reject-dup":
					g = gvote{mk(pick(), ph, false), true, kind}
				case "foreign":
					g = gvote{mk(fpool[fnext%len(fpool)], ph, true), true, kind + ":" + fclass}
					fnext++
				case "abnormal":
					if len(abnormals) == 0 {
						continue
					}
					g = gvote{mk(abnormals[rng.Intn(len(abnormals))], ph, true), true, kind}
				case "wronghash":
					g = gvote{mk(pick(), otherHash, true), true, kind}
				case "badsig":
					v := mk(pick(), ph, true)
					v.Sign = flip(v.Sign)
					g = gvote{v, false, kind}
				case "foreignkeysig": // names an arbiter, signed by somebody else
					v := payload.DPOSProposalVote{ProposalHash: ph, Signer: pick().pub, Accept: true}
					signVote(foreign[rng.Intn(len(foreign))], &v)
					g = gvote{v, false, kind}
				case "emptysig":
					v := mk(pick(), ph, true)
					v.Sign = nil
					g = gvote{v, false, kind}
				case "badkey": // signer bytes that are not a curve point
					v := payload.DPOSProposalVote{ProposalHash: ph, Signer: append([]byte{2}, rng.Bytes(31)...), Accept: true}
					v.Sign = rng.Bytes(64)
					g = gvote{v, false, kind}
				case "accept-flipped": // a valid reject vote whose Accept flag was flipped afterwards
					v := mk(pick(), ph, false)
					v.Accept = true
					g = gvote{v, false, kind}
				}
				votes = append(votes, g)
			}
			kinds = append(kinds, kind)
		}
		for i := len(votes) - 1; i > 0; i-- {
			j := rng.Intn(i + 1)
			votes[i], votes[j] = votes[j], votes[i]
		}
		conf := &payload.Confirm{Proposal: prop}
		for _, g := range votes {
			conf.Votes = append(conf.Votes, g.v)
		}

		// ---- the implementation
		var sOK, cOK bool
		p, pv := lib.Recover(func() {
			sOK = blockchain.ConfirmSanityCheck(conf) == nil
			cOK = blockchain.ConfirmContextCheck(conf) == nil
		})
		if p {
			st.Fail("ConfirmCheck:panic", fmt.Sprint(pv), map[string]interface{}{"n": n, "kinds": kinds})
		}
		accepted := sOK && cOK

		// ---- ground truth
		good := map[string]bool{} // distinct normal arbiters with a good vote
		allGood := true
		var badKinds []string
		for _, g := range votes {
			// "current arbiter" in the property statement = any member of the set, normal or not
			ok := g.v.Accept && g.v.ProposalHash == ph && g.sigValid && inSet[string(g.v.Signer)]
			if ok {
				good[string(g.v.Signer)] = true
			} else {
				allGood = false
				badKinds = append(badKinds, g.kind)
			}
		}
		quorum := 3*len(good) > 2*n
		sponsorOK := inSet[string(prop.Sponsor)]

		// ---- Coq case
		var arbTerms, voteTerms, vt []string
		for _, a := range as {
			arbTerms = append(arbTerms, fmt.Sprintf("A %d %s", keyReg.id(a.k.pub), lib.CoqBool(a.normal)))
		}
		hid := hashReg.id(ph[:])
		for _, g := range votes {
			k, h, s := keyReg.id(g.v.Signer), hashReg.id(g.v.ProposalHash[:]), sigReg.id(g.v.Sign)
			voteTerms = append(voteTerms, fmt.Sprintf("V %d %d %s %d", h, k, lib.CoqBool(g.v.Accept), s))
			if g.sigValid {
				vt = append(vt, fmt.Sprintf("(%d, %d, %s, %d)", k, h, lib.CoqBool(g.v.Accept), s))
			}
		}
		pt := "[]"
		if propSigValid {
			pt = fmt.Sprintf("[(%d, %d, %d)]", keyReg.id(prop.Sponsor), hid, sigReg.id(prop.Sign))
		}
		i := next()
		sh.Add(fmt.Sprintf("CConfirm %d %s %d %s %s (C %d %d %d %s) %s %s", i, lib.CoqList(arbTerms), fallback, pt, lib.CoqList(vt),
			keyReg.id(prop.Sponsor), hid, sigReg.id(prop.Sign), lib.CoqList(voteTerms), lib.CoqBool(sOK), lib.CoqBool(cOK)))
		desc := map[string]interface{}{"op": "ConfirmSanityCheck+ConfirmContextCheck", "arbiters": n, "normal_arbiters": len(normals), "majority": maj,
			"votes": len(votes), "distinct_good_signers": len(good), "pollution": kinds, "sponsor": sponsorKind,
			"sanity_ok": sOK, "context_ok": cOK, "set": kindHint, "mode": mode}
		st.LogCase(run.Out, i, desc)
		st.Count(fmt.Sprintf("cf:%d:%d:%d:%d:%v:%s:%v:%v", n, len(normals), len(votes), len(good), kinds, sponsorKind, sOK, cOK),
			len(good) >= maj-1 && n > 0, "confirm:"+map[bool]string{true: "accepted", false: "rejected"}[accepted])
		if id%97 == 0 || (accepted && len(st.Samples) < 2) {
			st.Sample(desc)
		}

		// ---- property oracle (only-if direction: the statement of C25)
		if accepted {
			if !quorum {
				st.Fail("ConfirmCheck:accept-without-quorum", "confirmation accepted although at most two thirds of the arbiters cast a good vote", desc)
			}
			if !allGood { // not a violation by itself (the quorum may not depend on that vote); the model forbids it, so the correspondence reports it
				st.Hist["accepted-with-defective-vote:"+strings.Join(badKinds, ",")]++
			}
			if !sponsorOK {
				st.Fail("ConfirmCheck:accept-foreign-sponsor", "confirmation accepted although the sponsor is not a current arbiter", desc)
			}
			if !propSigValid {
				st.Fail("ConfirmCheck:accept-unsigned-proposal", "confirmation accepted although the proposal signature is invalid", desc)
			}
		}
		return result{accepted, good}
	}

	mkSet := func(n int) []arb {
		var as []arb
		off := rng.Intn(20)
		for i := 0; i < n; i++ {
			as = append(as, arb{pool[(off+i)%58], true})
		}
		if n >= 2 && rng.Chance(25) { // some abnormal CRC members
			for c := 0; c < 1+rng.Intn(3); c++ {
				as[rng.Intn(n)].normal = false
			}
		}
		if n >= 2 && rng.Chance(5) { // the same member listed twice
			as[n-1] = as[0]
		}
		return as
	}
	doSet := func(n int, hint string) {
		as := mkSet(n)
		rs := []result{doConfirm(as, hint, "random"), doConfirm(as, hint, "random"), doConfirm(as, hint, "clean"), doConfirm(as, hint, "clean")}
		// near misses: a clean confirmation with exactly one defect
		defects := []string{"sponsor-foreign", "sponsor-abnormal", "prop-badsig", "exact-majority", "dupfill"}
		for _, k := range pollutions {
			defects = append(defects, "one-"+k)
			if k != "dup" && k != "dup-resigned" && k != "reject-dup" {
				defects = append(defects, "fill-"+k)
			}
		}
		for c := 0; c < 3; c++ {
			rs = append(rs, doConfirm(as, hint, defects[rng.Intn(len(defects))]))
		}
		for a := 0; a < len(rs); a++ {
			for b := a + 1; b < len(rs); b++ {
				if rs[a].accepted && rs[b].accepted { // quorum intersection on what the implementation accepted
					common := 0
					for k := range rs[a].good {
						if rs[b].good[k] {
							common++
						}
					}
					st.Hist["accepted-pairs"]++
					if 3*common <= n {
						st.Fail("ConfirmCheck:quorum-intersection", "two accepted confirmations share at most a third of the arbiters", map[string]interface{}{"n": n, "common": common})
					}
				}
			}
		}
	}
	doSet(0, "sizes")
	for n := 1; n <= 36; n++ {
		doSet(n, "sizes")
	}
	for i := 0; i < run.N(60, 4000); i++ {
		doSet(rng.Range(1, 36), "random")
	}
	st.Traces = st.Evals
	sh.Flush()
	st.Write(run.Out)
}
