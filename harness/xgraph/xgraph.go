// Package xgraph is the harness side of the translated properties (C24, C38,
// C36): it builds and runs the translator (/verif/harness/extract, a separate
// module pinned to golang.org/x/tools v0.29.0) on the source tree under
// --repo, loads the facts it wrote, and searches them for a witness (the
// offending path) when the property fails, so that the driver can print a
// concrete failing input.
package xgraph

import (
	"encoding/json"
	"fmt"
	"os"
	"os/exec"
	"path/filepath"
	"sort"
	"strings"
)

type Facts struct {
	Property   string                 `json:"property"`
	Repo       string                 `json:"repo"`
	Names      []string               `json:"names"`
	Pos        []string               `json:"pos"`
	Pkg        []string               `json:"pkg"`
	Succ       map[int][]int          `json:"succ"`
	Sites      map[string]string      `json:"sites"`
	Sources    []int                  `json:"sources"`
	Bad        []int                  `json:"bad"`
	Allowed    [][2]int               `json:"allowed"`
	AllowedWhy []string               `json:"allowed_why"`
	Anchors    map[string]int         `json:"anchors"`
	Secure     []int                  `json:"secure"`
	Direct     []int                  `json:"direct"`
	Clock      []int                  `json:"clock"`
	Barrier    []int                  `json:"barrier"`
	RandErr    []RandErrSite          `json:"rand_err"`
	FloatSums  []FloatSum             `json:"float_sums"`
	MapOrder   []MapOrderSite         `json:"map_order"`
	Extra      map[string]interface{} `json:"extra"`
}

// MapOrderSite: a slice filled in map iteration order in a consensus function.
type MapOrderSite struct {
	Func    string `json:"func"`
	Node    int    `json:"node"`
	At      string `json:"at"`
	RangeAt string `json:"range_at"`
	Verdict string `json:"verdict"`
	Use     string `json:"use,omitempty"`
	Why     string `json:"why,omitempty"`
}

// FloatSum: a float64 running sum in a consensus function that ranges over a map.
type FloatSum struct {
	Func     string `json:"func"`
	Node     int    `json:"node"`
	At       string `json:"at"`
	Integral bool   `json:"integral"`
}

// RandErrSite: a call on a key path that draws from crypto/rand and returns an error.
type RandErrSite struct {
	Func   string `json:"func"`
	Node   int    `json:"node"`
	Callee string `json:"callee"`
	At     string `json:"at"`
	Kind   string `json:"kind"`
	Why    string `json:"why,omitempty"`
}

// Root is the /verif directory (the driver runs harness binaries from it).
func Root() string {
	if r := os.Getenv("VERIF_ROOT"); r != "" {
		return r
	}
	if _, err := os.Stat("harness/extract/go.mod"); err == nil {
		wd, _ := os.Getwd()
		return wd
	}
	return "/verif"
}

// Extract builds the translator and runs `extract --prop <prop>` on repo.
// The Coq table goes to <root>/coq/gen/<coqFile>, the JSON copy to outDir.
// A non-zero exit of the translator (tree does not type-check, anchor
// missing) is returned as an error: the caller must fail closed.
func Extract(prop, repo, outDir, coqFile string, extraArgs ...string) (*Facts, string, error) {
	root := Root()
	env := append(os.Environ(), "GOFLAGS=-mod=mod", "GOPROXY=off", "GOSUMDB=off", "GOTOOLCHAIN=local", "CGO_ENABLED=0")
	bin := filepath.Join(outDir, "extract.bin")
	build := exec.Command("go", "build", "-o", bin, ".")
	build.Dir, build.Env = filepath.Join(root, "harness", "extract"), env
	if out, err := build.CombinedOutput(); err != nil {
		return nil, string(out), fmt.Errorf("building the translator: %v", err)
	}
	if err := os.MkdirAll(filepath.Join(root, "coq", "gen"), 0o755); err != nil {
		return nil, "", err
	}
	js := filepath.Join(outDir, strings.ToLower(prop)+"_facts.json")
	args := append([]string{"--prop", strings.ToLower(prop), "--repo", repo, "--coq", filepath.Join(root, "coq", "gen", coqFile), "--json", js}, extraArgs...)
	run := exec.Command(bin, args...)
	run.Env = env
	out, err := run.CombinedOutput()
	if err != nil {
		return nil, string(out), fmt.Errorf("translator failed: %v", err)
	}
	b, err := os.ReadFile(js)
	if err != nil {
		return nil, string(out), err
	}
	f := &Facts{}
	if err := json.Unmarshal(b, f); err != nil {
		return nil, string(out), err
	}
	return f, string(out), nil
}

func (f *Facts) Name(id int) string {
	if id >= 1 && id <= len(f.Names) {
		return f.Names[id-1]
	}
	return fmt.Sprintf("#%d", id)
}

// Step is one edge of a witness path.
type Step struct {
	From string `json:"from"`
	To   string `json:"to"`
	At   string `json:"at,omitempty"` // source position of the instruction that creates the edge
}

// Violation is an offending edge (f -> bad) with a shortest path from a source to f.
type Violation struct {
	Source string `json:"source"`
	Func   string `json:"func"`
	Bad    string `json:"bad"`
	At     string `json:"at"`
	Path   []Step `json:"path"`
}

// BadReferences re-evaluates the statement of no_bad_reference on the facts
// (independently of Coq) and returns every offending edge with a witness path.
func (f *Facts) BadReferences() []Violation {
	parent := map[int]int{}
	var queue []int
	for _, s := range f.Sources {
		if _, ok := parent[s]; !ok {
			parent[s] = 0
			queue = append(queue, s)
		}
	}
	for len(queue) > 0 {
		x := queue[0]
		queue = queue[1:]
		for _, y := range f.Succ[x] {
			if _, ok := parent[y]; !ok {
				parent[y] = x
				queue = append(queue, y)
			}
		}
	}
	bad := map[int]bool{}
	for _, b := range f.Bad {
		bad[b] = true
	}
	allowed := map[[2]int]bool{}
	for _, a := range f.Allowed {
		allowed[a] = true
	}
	var res []Violation
	ids := make([]int, 0, len(parent))
	for id := range parent {
		ids = append(ids, id)
	}
	sortInts(ids)
	for _, x := range ids {
		for _, y := range f.Succ[x] {
			if !bad[y] || allowed[[2]int{x, y}] {
				continue
			}
			// path source -> x
			var rev []int
			for n := x; n != 0; n = parent[n] {
				rev = append(rev, n)
			}
			v := Violation{Source: f.Name(rev[len(rev)-1]), Func: f.Name(x), Bad: f.Name(y), At: f.Sites[fmt.Sprintf("%d,%d", x, y)]}
			for i := len(rev) - 1; i > 0; i-- {
				v.Path = append(v.Path, Step{f.Name(rev[i]), f.Name(rev[i-1]), f.Sites[fmt.Sprintf("%d,%d", rev[i], rev[i-1])]})
			}
			v.Path = append(v.Path, Step{f.Name(x), f.Name(y), v.At})
			res = append(res, v)
		}
	}
	return res
}

// ReachableFrom returns the set of nodes reachable from the given nodes.
func (f *Facts) ReachableFrom(from []int) map[int]bool {
	seen := map[int]bool{}
	var queue []int
	for _, s := range from {
		if !seen[s] {
			seen[s] = true
			queue = append(queue, s)
		}
	}
	for len(queue) > 0 {
		x := queue[0]
		queue = queue[1:]
		for _, y := range f.Succ[x] {
			if !seen[y] {
				seen[y] = true
				queue = append(queue, y)
			}
		}
	}
	return seen
}

// ShortestPath returns a shortest path between two named nodes (diagnostics).
func (f *Facts) ShortestPath(from, to int) []Step {
	parent := map[int]int{from: 0}
	queue := []int{from}
	for len(queue) > 0 {
		x := queue[0]
		queue = queue[1:]
		if x == to {
			break
		}
		for _, y := range f.Succ[x] {
			if _, ok := parent[y]; !ok {
				parent[y] = x
				queue = append(queue, y)
			}
		}
	}
	if _, ok := parent[to]; !ok {
		return nil
	}
	var rev []int
	for n := to; n != 0; n = parent[n] {
		rev = append(rev, n)
	}
	var p []Step
	for i := len(rev) - 1; i > 0; i-- {
		p = append(p, Step{f.Name(rev[i]), f.Name(rev[i-1]), f.Sites[fmt.Sprintf("%d,%d", rev[i], rev[i-1])]})
	}
	return p
}

func sortInts(a []int) { sort.Ints(a) }
